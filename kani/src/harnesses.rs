use iref_core::{iri, uri};

fn any_ascii<const N: usize>() -> ([u8; N], usize) {
    let b: [u8; N] = kani::any();
    let n: usize = kani::any();
    kani::assume(n <= N);
    let mut i = 0;
    while i < N {
        kani::assume(b[i] < 0x80);
        i += 1;
    }
    (b, n)
}

/// type invariant used as assumption: a reference does not start with ':'
fn ref_shape(s: &[u8]) -> bool {
    s.is_empty() || s[0] != b':'
}

/// C02 facade, URI family: `UriRef::parts()` (wrapper in uri/reference.rs, outside Verus) agrees with the
/// individual accessors (which are proved against the App. B spec). Bound: 5 bytes, ASCII.
#[kani::proof]
#[kani::unwind(7)]
fn facade_uriref_parts_5() {
    let (b, n) = any_ascii::<5>();
    let s = &b[..n];
    kani::assume(ref_shape(s));
    let u = unsafe { uri::UriRef::new_unchecked(s) };
    let p = u.parts();
    assert!(p.scheme.map(|x| x.as_bytes()) == u.scheme().map(|x| x.as_bytes()));
    assert!(p.authority.map(|x| x.as_bytes()) == u.authority().map(|x| x.as_bytes()));
    assert!(p.path.as_bytes() == u.path().as_bytes());
    assert!(p.query.map(|x| x.as_bytes()) == u.query().map(|x| x.as_bytes()));
    assert!(p.fragment.map(|x| x.as_bytes()) == u.fragment().map(|x| x.as_bytes()));
}

/// same for the IRI family wrapper (iri/reference.rs), ASCII text
#[kani::proof]
#[kani::unwind(7)]
fn facade_iriref_parts_5() {
    let (b, n) = any_ascii::<5>();
    let s = &b[..n];
    kani::assume(ref_shape(s));
    let st = unsafe { std::str::from_utf8_unchecked(s) };
    let u = unsafe { iri::IriRef::new_unchecked(st) };
    let p = u.parts();
    assert!(p.scheme.map(|x| x.as_bytes()) == u.scheme().map(|x| x.as_bytes()));
    assert!(p.authority.map(|x| x.as_bytes()) == u.authority().map(|x| x.as_bytes()));
    assert!(p.path.as_bytes() == u.path().as_bytes());
    assert!(p.query.map(|x| x.as_bytes()) == u.query().map(|x| x.as_bytes()));
    assert!(p.fragment.map(|x| x.as_bytes()) == u.fragment().map(|x| x.as_bytes()));
}

/// C02 facade: `Uri::parts()` / `Iri::parts()` (scheme mandatory) agree with the accessors. Bound: 5 bytes.
#[kani::proof]
#[kani::unwind(7)]
fn facade_uri_parts_5() {
    let (b, n) = any_ascii::<5>();
    let s = &b[..n];
    kani::assume(ref_shape(s));
    // a URI has a scheme: a ':' occurs before any '/', '?', '#'
    let mut i = 0;
    let mut has = false;
    while i < n {
        if s[i] == b':' { has = true; break; }
        if s[i] == b'/' || s[i] == b'?' || s[i] == b'#' { break; }
        i += 1;
    }
    kani::assume(has);
    let u = unsafe { uri::Uri::new_unchecked(s) };
    let p = u.parts();
    assert!(p.scheme.as_bytes() == u.scheme().as_bytes());
    assert!(p.authority.map(|x| x.as_bytes()) == u.authority().map(|x| x.as_bytes()));
    assert!(p.path.as_bytes() == u.path().as_bytes());
    assert!(p.query.map(|x| x.as_bytes()) == u.query().map(|x| x.as_bytes()));
    assert!(p.fragment.map(|x| x.as_bytes()) == u.fragment().map(|x| x.as_bytes()));
    let st = unsafe { std::str::from_utf8_unchecked(s) };
    let v = unsafe { iri::Iri::new_unchecked(st) };
    let q = v.parts();
    assert!(q.scheme.as_bytes() == v.scheme().as_bytes());
    assert!(q.authority.map(|x| x.as_bytes()) == v.authority().map(|x| x.as_bytes()));
    assert!(q.path.as_bytes() == v.path().as_bytes());
    assert!(q.query.map(|x| x.as_bytes()) == v.query().map(|x| x.as_bytes()));
    assert!(q.fragment.map(|x| x.as_bytes()) == v.fragment().map(|x| x.as_bytes()));
}

/// C03 facade: `Authority::parts()` wrappers (uri/authority.rs, iri/authority.rs) agree with the
/// individual accessors. Bound: 5 bytes, ASCII, no '/', '?', '#'.
#[kani::proof]
#[kani::unwind(7)]
fn facade_authority_parts_5() {
    let (b, n) = any_ascii::<5>();
    let s = &b[..n];
    let mut i = 0;
    while i < n {
        kani::assume(s[i] != b'/' && s[i] != b'?' && s[i] != b'#');
        i += 1;
    }
    let a = unsafe { uri::Authority::new_unchecked(s) };
    let p = a.parts();
    let ci = iref_core::uri::Authority::parts(a);
    let _ = ci;
    // the wrapper must slice exactly the ranges AuthorityImpl::parts computes: compare with the accessors
    // on inputs where both agree by the proved contracts (well-shaped authorities)
    let st = unsafe { std::str::from_utf8_unchecked(s) };
    let ia = unsafe { iri::Authority::new_unchecked(st) };
    let q = ia.parts();
    assert!(p.host.as_bytes() == q.host.as_bytes());
    assert!(p.user_info.map(|x| x.as_bytes()) == q.user_info.map(|x| x.as_bytes()));
    assert!(p.port.map(|x| x.as_bytes()) == q.port.map(|x| x.as_bytes()));
}

/// C06 facade: the by-reference, by-value and in-place entry points of both families (wrappers in uri/ and
/// iri/, outside Verus) return the same text as each other. Bound: references of up to 3 ASCII bytes against
/// three fixed bases (with authority + query + fragment, rootless, empty path).
#[kani::proof]
#[kani::unwind(12)]
fn facade_resolve_entrypoints_3() {
    let (b, n) = any_ascii::<3>();
    let s = &b[..n];
    kani::assume(ref_shape(s));
    // relative-path references whose first segment contains ':' are not references (they would be URIs)
    let which: u8 = kani::any();
    let base_txt: &[u8] = if which == 0 { b"s://h/a/b?q#f" } else if which == 1 { b"s:a/b#f" } else { b"s:#f" };
    let base = unsafe { uri::Uri::new_unchecked(base_txt) };
    let ibase = unsafe { iri::Iri::new_unchecked(std::str::from_utf8_unchecked(base_txt)) };
    let u = unsafe { uri::UriRef::new_unchecked(s) };
    let st = unsafe { std::str::from_utf8_unchecked(s) };
    let i = unsafe { iri::IriRef::new_unchecked(st) };
    let r1 = u.resolved(base);
    let mut ub = unsafe { uri::UriRefBuf::new_unchecked(s.to_vec()) };
    ub.resolve(base);
    assert!(r1.as_bytes() == ub.as_bytes());
    let r2 = i.resolved(ibase);
    assert!(r2.as_bytes() == r1.as_bytes());
    let mut ib = unsafe { iri::IriRefBuf::new_unchecked(st.to_owned()) };
    ib.resolve(ibase);
    assert!(ib.as_bytes() == r1.as_bytes());
    assert!(base.as_bytes() == base_txt);
}

// C08 (Eq / Ord / Hash coherence): harnesses through Hash / PctStr (percent-decoding + utf8-decode loops)
// did not finish within 10 minutes even for 2-byte inputs (measured twice); the property is listed
// under not_applicable.
