use iref_core::{iri, uri};

fn any_ascii<const N: usize>() -> ([u8; N], usize) {
    let b: [u8; N] = kani::any();
    let n: usize = kani::any();
    kani::assume(n <= N);
    let mut i = 0;
    while i < N {
        kani::assume(b[i] < 0x80);
        i += 1;
    }
    (b, n)
}

/// type invariant used as assumption: a reference does not start with ':'
fn ref_shape(s: &[u8]) -> bool {
    s.is_empty() || s[0] != b':'
}

/// C02 facade, URI family: `UriRef::parts()` (wrapper in uri/reference.rs, outside Verus) agrees with the
/// individual accessors (which are proved against the App. B spec). Bound: 5 bytes, ASCII.
#[kani::proof]
#[kani::unwind(7)]
fn facade_uriref_parts_5() {
    let (b, n) = any_ascii::<5>();
    let s = &b[..n];
    kani::assume(ref_shape(s));
    let u = unsafe { uri::UriRef::new_unchecked(s) };
    let p = u.parts();
    assert!(p.scheme.map(|x| x.as_bytes()) == u.scheme().map(|x| x.as_bytes()));
    assert!(p.authority.map(|x| x.as_bytes()) == u.authority().map(|x| x.as_bytes()));
    assert!(p.path.as_bytes() == u.path().as_bytes());
    assert!(p.query.map(|x| x.as_bytes()) == u.query().map(|x| x.as_bytes()));
    assert!(p.fragment.map(|x| x.as_bytes()) == u.fragment().map(|x| x.as_bytes()));
}

/// same for the IRI family wrapper (iri/reference.rs), ASCII text
#[kani::proof]
#[kani::unwind(7)]
fn facade_iriref_parts_5() {
    let (b, n) = any_ascii::<5>();
    let s = &b[..n];
    kani::assume(ref_shape(s));
    let st = unsafe { std::str::from_utf8_unchecked(s) };
    let u = unsafe { iri::IriRef::new_unchecked(st) };
    let p = u.parts();
    assert!(p.scheme.map(|x| x.as_bytes()) == u.scheme().map(|x| x.as_bytes()));
    assert!(p.authority.map(|x| x.as_bytes()) == u.authority().map(|x| x.as_bytes()));
    assert!(p.path.as_bytes() == u.path().as_bytes());
    assert!(p.query.map(|x| x.as_bytes()) == u.query().map(|x| x.as_bytes()));
    assert!(p.fragment.map(|x| x.as_bytes()) == u.fragment().map(|x| x.as_bytes()));
}

/// C02 facade: `Uri::parts()` / `Iri::parts()` (scheme mandatory) agree with the accessors. Bound: 5 bytes.
#[kani::proof]
#[kani::unwind(7)]
fn facade_uri_parts_5() {
    let (b, n) = any_ascii::<5>();
    let s = &b[..n];
    kani::assume(ref_shape(s));
    // a URI has a scheme: a ':' occurs before any '/', '?', '#'
    let mut i = 0;
    let mut has = false;
    while i < n {
        if s[i] == b':' { has = true; break; }
        if s[i] == b'/' || s[i] == b'?' || s[i] == b'#' { break; }
        i += 1;
    }
    kani::assume(has);
    let u = unsafe { uri::Uri::new_unchecked(s) };
    let p = u.parts();
    assert!(p.scheme.as_bytes() == u.scheme().as_bytes());
    assert!(p.authority.map(|x| x.as_bytes()) == u.authority().map(|x| x.as_bytes()));
    assert!(p.path.as_bytes() == u.path().as_bytes());
    assert!(p.query.map(|x| x.as_bytes()) == u.query().map(|x| x.as_bytes()));
    assert!(p.fragment.map(|x| x.as_bytes()) == u.fragment().map(|x| x.as_bytes()));
    let st = unsafe { std::str::from_utf8_unchecked(s) };
    let v = unsafe { iri::Iri::new_unchecked(st) };
    let q = v.parts();
    assert!(q.scheme.as_bytes() == v.scheme().as_bytes());
    assert!(q.authority.map(|x| x.as_bytes()) == v.authority().map(|x| x.as_bytes()));
    assert!(q.path.as_bytes() == v.path().as_bytes());
    assert!(q.query.map(|x| x.as_bytes()) == v.query().map(|x| x.as_bytes()));
    assert!(q.fragment.map(|x| x.as_bytes()) == v.fragment().map(|x| x.as_bytes()));
}

/// C03 facade: `Authority::parts()` wrappers (uri/authority.rs, iri/authority.rs) agree with the
/// individual accessors. Bound: 5 bytes, ASCII, no '/', '?', '#'.
#[kani::proof]
#[kani::unwind(7)]
fn facade_authority_parts_5() {
    let (b, n) = any_ascii::<5>();
    let s = &b[..n];
    let mut i = 0;
    while i < n {
        kani::assume(s[i] != b'/' && s[i] != b'?' && s[i] != b'#');
        i += 1;
    }
    let a = unsafe { uri::Authority::new_unchecked(s) };
    let p = a.parts();
    let ci = iref_core::uri::Authority::parts(a);
    let _ = ci;
    // the wrapper must slice exactly the ranges AuthorityImpl::parts computes: compare with the accessors
    // on inputs where both agree by the proved contracts (well-shaped authorities)
    let st = unsafe { std::str::from_utf8_unchecked(s) };
    let ia = unsafe { iri::Authority::new_unchecked(st) };
    let q = ia.parts();
    assert!(p.host.as_bytes() == q.host.as_bytes());
    assert!(p.user_info.map(|x| x.as_bytes()) == q.user_info.map(|x| x.as_bytes()));
    assert!(p.port.map(|x| x.as_bytes()) == q.port.map(|x| x.as_bytes()));
}

// C06 facade (by-reference / by-value / in-place entry points of both families agree): a harness over references of
// up to 3 bytes against three fixed bases did not finish in 20 minutes (SmallVec<[u8; 512]> in normalize, Vec splicing);
// removed - the wrappers in uri/ and iri/ stay outside the decided part of C06.

/// media-type characters of the data URL scanner, restated independently (RFC 2397 subset used by the crate)
fn is_mt(c: u8) -> bool {
    c.is_ascii_alphanumeric() || matches!(c, b'/' | b'!' | b'#' | b'$' | b'&' | b'-' | b'+' | b'^' | b'_' | b'.')
}

/// independent oracle: shape 'data:' media-type [';base64'] ',' data   -> (media_type_end, base64, data_start)
fn data_shape(s: &[u8]) -> Option<(usize, bool, usize)> {
    if s.len() < 5 || &s[..5] != b"data:" { return None; }
    let mut i = 5;
    while i < s.len() {
        let c = s[i];
        if c == b',' { return Some((i, false, i + 1)); }
        if c == b';' {
            return if s.len() >= i + 8 && &s[i + 1..i + 8] == b"base64," { Some((i, true, i + 8)) } else { None };
        }
        if !is_mt(c) { return None; }
        i += 1;
    }
    None
}

fn data_text<const N: usize>() -> ([u8; N], usize) {
    let (mut b, n) = any_ascii::<N>();
    kani::assume(n >= 5);
    b[0] = b'd'; b[1] = b'a'; b[2] = b't'; b[3] = b'a'; b[4] = b':';
    (b, n)
}

/// C18: the scanner accepts exactly the shape, and the borrowed form (re-scans) and the owned form (stored offsets)
/// report the same media type / base64 flag / data, which reassemble the text.
fn dataurl_views<const N: usize>(semicolon_branch: bool, comma_first: bool) {
    let (b, n) = data_text::<N>();
    let s = &b[..n];
    if comma_first {
        // empty media type, plain data: the remaining bytes are an arbitrary data part (may contain ';', ',', "base64")
        kani::assume(n >= 6 && b[5] == b',');
    }
    if semicolon_branch {
        // steer to the ';' branch: a ';' within the first three bytes after 'data:'
        kani::assume(n >= 6 && (b[5] == b';' || (n >= 7 && is_mt(b[5]) && (b[6] == b';' || (n >= 8 && is_mt(b[6]) && b[7] == b';')))));
    }
    let st = unsafe { std::str::from_utf8_unchecked(s) };
    let parts = uri::data::DataUrlPartsRef::parse(st);
    let sh = data_shape(s);
    assert!(parts.is_some() == sh.is_some());
    if let (Some(p), Some((mte, b64, ds))) = (parts, sh) {
        assert!(p.base_64 == b64);
        if semicolon_branch { assert!(b64); }
        assert!(p.data.as_bytes() == &s[ds..]);
        assert!(p.media_type.map(|m| m.as_bytes()) == if mte > 5 { Some(&s[5..mte]) } else { None });
        // borrowed form: accessors re-scan the text
        let d = unsafe { uri::data::DataUrl::new_unchecked(s) };
        assert!(d.media_type() == p.media_type);
        assert!(d.is_base_64_encoded() == p.base_64);
        assert!(d.encoded_data() == p.data);
        // reassembly
        let ml = p.media_type.map_or(0, |m| m.len());
        assert!(5 + ml + (if p.base_64 { 7 } else { 0 }) + 1 + p.data.len() == s.len());
    }
}

/// Bound: 'data:' + up to 5 ASCII bytes (plain branch and every rejection) - quick tier
#[kani::proof]
#[kani::unwind(12)]
fn dataurl_views_plain_10() { dataurl_views::<10>(false, false) }

/// Bound: 'data:' + up to 7 ASCII bytes - thorough tier
#[kani::proof]
#[kani::unwind(14)]
fn dataurl_views_plain_12() { dataurl_views::<12>(false, false) }

/// arbitrary data part: 'data:,' + up to 8 free bytes (long enough to contain ";base64,") - quick tier
#[kani::proof]
#[kani::unwind(16)]
fn dataurl_views_data_14() { dataurl_views::<14>(false, true) }

/// ';base64,' branch: 'data:' + up to 9 bytes with a ';' among the first three - quick tier
#[kani::proof]
#[kani::unwind(16)]
fn dataurl_views_base64_14() { dataurl_views::<14>(true, false) }

/// ';base64,' branch: 'data:' + up to 10 bytes - thorough tier
#[kani::proof]
#[kani::unwind(17)]
fn dataurl_views_base64_15() { dataurl_views::<15>(true, false) }

// C08 (Eq / Ord / Hash coherence): harnesses through Hash / PctStr (percent-decoding + utf8-decode loops)
// did not finish within 10 minutes even for 2-byte inputs (measured twice); the property is listed
// under not_applicable.
