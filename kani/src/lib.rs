//! Bounded stand-ins (Kani). Every harness is exhaustive up to the bound in its name and is
//! labelled *bounded* in the evidence - never counted as proved.
#![allow(unused)]
#[cfg(kani)]
mod harnesses;
