#!/usr/bin/env python3
"""check.py <Cxx> [--tier quick|thorough] [--replay FILE]

Decides one property of /verif/properties.jsonl on /repo's current working tree with the
machinery described in DESIGN.md.  Exit 0: every obligation of the property was discharged
(KNOWN-FINDING lines may be printed).  Exit 1: `VIOLATION property=<id> replay=<path>`.
Exit 2: undecided (anchor lost, unsupported construct, resource limit) - never an alarm.
"""
import os, sys, json, time, shutil, argparse, re, subprocess, hashlib
VERIF = os.path.dirname(os.path.abspath(__file__))
sys.path.insert(0, os.path.join(VERIF, "tools"))
import engine, annotate

# evidence and replay files of runs against a tree other than /repo (VERIF_REPO, used when testing
# seeded changes) must not overwrite the records of the real tree
_ALT = os.environ.get("VERIF_REPO", "/repo") != "/repo"
EVID = os.path.join(VERIF, "evidence") if not _ALT else "/tmp/verif-alt/evidence"
REPLAYS = os.path.join(VERIF, "replays") if not _ALT else "/tmp/verif-alt/replays"
KNOWN = os.path.join(VERIF, "known_findings.json")

# property -> verification units.  "verus": obligations are those of functions whose @props
# name the property; `modules` = what --verify-only-module is given in the quick tier.
from props import PROPS


# properties for which replay/src/oracle.rs has an executable specification + enumerator (bounded refutation search)
SEARCHABLE = {"C01": "all byte strings over {a : / % C3 A9 FF} up to 4 bytes: owned constructors and from_vec agree with the borrowed `new`, keep the text, return the input on failure",
              "C06": "every reference over {a : / ? # .} up to 4 bytes x 7 bases: RFC 3986 5.2.2 selection of scheme / authority / query / fragment (and of the path where the table copies it), validity of the result, agreement of the six entry points of both families; the merged / dot-segment-free path is NOT compared (recorded deviations)",
              "C02": "all valid references over {a : / ? # @} up to 6 bytes (both families)",
              "C03": "all valid authorities over {a : @ [ ] 1} up to 6 bytes (both families)",
              "C20": "the C02, C03 and C12 enumerations (placement of the returned slices inside the input)",
              "C12": "all valid paths over {a / .} up to 7 bytes, both families (forward, backward and alternating iteration; first / last / file_name / directory / parent / parent_or_empty / is_empty / is_absolute / is_relative / segment_count / normalized_segments().len())",
              "C09": "all valid paths over {a / .} up to 7 bytes (normalized segment sequence) and in-place normalize on every reference over {a : / ? .} up to 5 bytes (segment sequence up to the shield, idempotence, kind, frame, re-parse)",
              "C04": "the C05, C10 and C11 enumerations: every edit leaves a text the real parser accepts again",
              "C05": "every reference over {a : / ? #} up to 5 bytes x the five setters x 2-11 values each: re-parse, requested component read back, others byte-identical, path only changed by the three documented disambiguations",
              "C10": "every reference over {a : / ? .} up to 5 bytes x push / pop / clear / symbolic_push / normalize (5 segment values): frame, re-parse, push appends exactly the segment (up to the shield), clear leaves none",
              "C11": "~60 authorities over {a : @ 1} up to 4 bytes inside 's://<authority>' and 's://<authority>/p?q#f' x set_userinfo / set_host / set_port (3 values each), alone and followed by a second edit through the same handle: exact resulting text",
              "C07": "all pairs from ~450 short references (alphabet {a / . : ? #} up to 4 bytes + 29 hand-picked with ports, IP literals, percent-escapes), ~150 paths, ~60 authorities, 7 hosts; inputs whose percent-decoding is not UTF-8 are skipped (C19 finding)",
              "C08": "same pairs as C07: == vs cmp == Equal, antisymmetry, hasher feeds of equal values and of the views of one value (recording hasher)",
              "C13": "all IRI references over {a : / ? #} up to 5 bytes + 5 non-ASCII texts: outcome and text of 20 conversions, and the value inside the error of the 5 owned conversions that can fail",
              "C18": "'data:' + every text over {a ; , / b} up to 6 bytes, plus ~160 texts containing ';base64,' in header and data positions: scanner vs the shape oracle, parts vs borrowed accessors",
              "C19": "all component texts over {a % 4 1 ? /} up to 4 bytes whose decoded octets are UTF-8: text, decoding and length of the as_pct_str view of Query / Fragment / Segment / Host / UserInfo of both families and of into_pct_string of the eight owned component types",
              "C16": "all URIs over {a : / ? #} up to 6 bytes (base) and all pairs of paths over {a / .} up to 5 bytes (suffix)"}


def refutation_search(pid):
    """bounded search for a concrete input on which the REAL crate of the current tree disagrees with the executable
    specification. Returns (list of findings, error string or None)."""
    import shutil
    s_ = engine.scratch_root()
    try:
        engine.copy_repo(s_)
        b_ = engine.build_replay(s_)
        rc, so, se = engine.replay(b_, "search", pid, timeout=600)
        out = []
        for line in so.split("\n"):
            line = line.strip()
            if line.startswith("{"):
                d = json.loads(line)
                if not d.get("none"):
                    out.append(d)
        return out, None
    except Exception as e:
        return [], str(e)[-300:]
    finally:
        shutil.rmtree(s_, ignore_errors=True)


def load_known():
    if not os.path.exists(KNOWN):
        return {"findings": [], "fixed": []}
    return json.load(open(KNOWN))


def trusted_base_scan():
    """mechanical scan of the overlay for everything that is assumed rather than proved"""
    out = []
    cdir = engine.CONTRACTS
    for name in sorted(os.listdir(cdir)):
        p = os.path.join(cdir, name)
        txt = open(p).read()
        for m in re.finditer(r"assume_specification(?:<[^>]*>)?\s*\[\s*([^\]]+)\]", txt):
            out.append("assumed contract (std/dependency/generated): %s  [%s]" % (re.sub(r"\s+", " ", m.group(1)), name))
        for m in re.finditer(r"external_type_specification\]\s*(?:#\[[^\]]*\]\s*)*pub struct (\w+)", txt):
            out.append("opaque external type: %s  [%s]" % (m.group(1), name))
        for m in re.finditer(r"external_body\]\s*pub proof fn (\w+)", txt):
            out.append("axiom (unproved lemma): %s  [%s]" % (m.group(1), name))
        if name.endswith(".vspec"):
            cur = None
            for line in txt.split("\n"):
                if line.startswith("@fn "):
                    cur = line[4:].strip()
                elif "external_body" in line and line.startswith("@attr") and cur:
                    out.append("function left unverified (external_body; contract, if any, assumed): %s  [%s]" % (cur, name))
                elif line.startswith("@split-at") and cur:
                    out.append("proof case split (one Verus query per marked branch; the other marked branches are cut with assume(false) in that query and verified in their own): %s  [%s]" % (cur, name))
                elif line.startswith("@drop-body") and cur:
                    out.append("body dropped from the verified trait (trait-cycle cut): %s  [%s]" % (cur, name))
        for m in re.finditer(r"\b(admit|assume)\s*\(", txt):
            out.append("%s( in %s" % (m.group(1), name))
    return out


def do_replay(pid, path):
    """re-run a recorded violation against the current tree: concrete inputs through the replay
    driver (real crate), obligations without an input by re-running the check"""
    rec = json.load(open(path))
    import shutil
    still = 0
    with_input = [v for v in rec["failed_obligations"] if v.get("input")]
    if with_input:
        s = engine.scratch_root()
        try:
            engine.copy_repo(s)
            b = engine.build_replay(s)
            for v in with_input:
                i = v["input"]
                if i.get("op") == "new":
                    rc, so, se = engine.replay(b, "new", i["family"], i["type"], i["text_hex"])
                    bad = (so == "accept") != bool(i["rfc_language"])
                    print("REPLAY %s: %s::%s::new(%r) -> %s ; RFC language says %s => %s" % (v["obligation"], i["family"], i["type"], i["text"], so or se, "accept" if i["rfc_language"] else "reject", "STILL FAILS" if bad else "now agrees"))
                    still += bad
                elif i.get("op") == "search":
                    rc, so, se = engine.replay(b, "search", i["prop"], timeout=600)
                    found = [json.loads(l) for l in so.split("\n") if l.strip().startswith("{") and '"none"' not in l]
                    bad = len(found) > 0
                    print("REPLAY %s: bounded search on the real crate -> %s => %s" % (v["obligation"], (found[0]["what"] + " on " + ", ".join(repr(x) for x in found[0]["inputs_text"])) if found else "no discrepancy", "STILL FAILS" if bad else "now agrees"))
                    still += bad
                elif i.get("op") == "cmd":
                    rc, so, se = engine.replay(b, *i["args"])
                    bad = (so != i.get("expected"))
                    print("REPLAY %s: %s -> %s ; expected %s => %s" % (v["obligation"], " ".join(i["args"]), so or se, i.get("expected"), "STILL FAILS" if bad else "now agrees"))
                    still += bad
        finally:
            shutil.rmtree(s, ignore_errors=True)
    if len(with_input) < len(rec["failed_obligations"]):
        want = set(v["obligation"] for v in rec["failed_obligations"] if not v.get("input"))
        r = subprocess.run([sys.executable, os.path.abspath(__file__), pid, "--tier", rec.get("tier", "quick")], stdout=subprocess.PIPE, text=True)
        for line in r.stdout.split("\n"):
            if line.startswith("FAILED-OBLIGATION:") and any(w in line for w in want):
                print("REPLAY (obligation re-checked): " + line)
                still += 1
    if still:
        print("VIOLATION property=%s replay=%s" % (pid, path))
        return 1
    print("replay: no recorded failure reproduces on the current tree")
    return 0


def main():
    ap = argparse.ArgumentParser()
    ap.add_argument("prop")
    ap.add_argument("--tier", default=os.environ.get("VERIF_TIER", "quick"))
    ap.add_argument("--replay")
    ap.add_argument("--keep", action="store_true")
    a = ap.parse_args()
    pid = a.prop
    if pid not in PROPS:
        print("property %s has no check (see MANIFEST not_applicable)" % pid)
        return 2
    cfg = PROPS[pid]
    if a.replay:
        return do_replay(pid, a.replay)
    seed = int(os.environ.get("VERIF_SEED", "0") or 0)
    t0 = time.time()
    os.makedirs(EVID, exist_ok=True)
    os.makedirs(REPLAYS, exist_ok=True)
    known = load_known()
    evidence = {"property_id": pid, "tier": a.tier, "seed": seed, "level": cfg["level"], "coverage": {}, "assumptions": [], "wall_s": 0.0, "violations": 0}
    violations = []   # (obligation, detail dict)
    known_hits = []
    undecided = []
    units = []

    import units as U
    from concurrent.futures import ThreadPoolExecutor
    todo = [u for u in cfg["units"] if not (a.tier == "quick" and u.get("tier") == "thorough")]
    with ThreadPoolExecutor(max_workers=max(1, len(todo))) as ex:
        for res in ex.map(lambda u: getattr(U, "run_" + u["kind"])(pid, u, a.tier, seed, keep=a.keep), todo):
            units.append(res)
            violations += res.get("violations", [])
            undecided += res.get("undecided", [])

    # known findings filter
    kf = [k for k in known.get("findings", []) if k["property"] == pid]
    # findings recorded with a concrete witness (deviations the contracts spell out as the code's
    # actual behaviour, or exclusions of a proved lemma): replay the witness on the real code
    wit = [k for k in kf if k.get("replay")]
    if wit:
        import shutil
        s_ = engine.scratch_root()
        try:
            engine.copy_repo(s_)
            b_ = engine.build_replay(s_)
            for k in wit:
                rc, so, se = engine.replay(b_, *k["replay"])
                if so == k.get("observed"):
                    print("KNOWN-FINDING: property=%s %s -- %s [witness %s -> %s; the property asks for %s]" % (pid, k["obligation"], k.get("what", ""), " ".join(k["replay"]), so, k.get("expected")))
                else:
                    print("NOTE: listed finding %s no longer reproduces (witness now gives %r)" % (k["obligation"], so or se))
        except Exception as e:
            undecided.append({"what": "could not replay the witnesses of the listed findings: %s" % e})
        finally:
            shutil.rmtree(s_, ignore_errors=True)
    real = []
    for v in violations:
        hit = None
        for k in kf:
            if k["obligation"] == v["obligation"]:
                hit = k
        if hit:
            known_hits.append((hit, v))
        else:
            real.append(v)
    # bounded refutation search on the real code, on every run: it gives a failed obligation its concrete failing input,
    # can refute where the verifier is undecided, and stands in (BOUNDED, never counted as proved) for the thin facade
    # wrappers that no contract reaches. A discrepancy is a refutation with a replayable input; finding none changes
    # nothing (an undecided run stays undecided, a proof stays exactly as strong as its obligations).
    search_info = None
    if pid in SEARCHABLE:
        found, err = refutation_search(pid)
        search_info = {"ran": True, "bounded": True, "bound": SEARCHABLE[pid], "why": "failed obligation" if real else ("undecided obligation" if undecided else "every run"), "discrepancies": len(found), "error": err}
        for d in found:
            real.append({"obligation": "refutation-search::" + d["what"], "message": "the real crate returns %s, the specification demands %s" % (d["real"], d["expected"]), "kind": "bounded-search",
                         "function": None, "verifier_output": "", "input": {"op": "search", "prop": pid, "inputs_hex": d["inputs_hex"], "inputs_text": d["inputs_text"], "real": d["real"], "expected": d["expected"]}})
    # a listed finding that no longer fails is just reported as such (not an alarm)
    for k, v in known_hits:
        if k.get("replay"):
            continue
        print("KNOWN-FINDING: property=%s %s -- %s" % (pid, k["obligation"], k.get("what", "")))

    # evidence
    cov = {"obligations": 0, "discharged": 0, "checker_cmd": "", "trusted_base": [], "samples": [], "functions_under_contract": [],
           "bounded_harnesses": [], "not_covered": cfg.get("not_covered", []), "units": []}
    for r in units:
        cov["obligations"] += r.get("obligations", 0)
        cov["discharged"] += r.get("discharged", 0)
        if r.get("checker_cmd") and not cov["checker_cmd"]:
            cov["checker_cmd"] = r["checker_cmd"]
        cov["trusted_base"] += r.get("trusted_base", [])
        cov["samples"] += r.get("samples", [])[:12]
        cov["functions_under_contract"] += r.get("functions", [])
        cov["bounded_harnesses"] += r.get("bounded", [])
        cov["units"].append({k: r.get(k) for k in ("kind", "name", "obligations", "discharged", "smt_time_s", "wall_s", "verified_functions", "backend", "rlimit", "note", "isolated_runs", "lemmas", "axiom_references_checked", "axiom_statements_compared") if k in r})
    cov["trusted_base"] = sorted(set(cov["trusted_base"]))
    n_cbmc = sum((h.get("cbmc_checks") or 0) for h in cov["bounded_harnesses"])
    if n_cbmc:
        cov["bounded_cbmc_checks"] = n_cbmc
        if cov["obligations"] == 0:
            # a property decided only by bounded harnesses (level `other`): the obligations are the CBMC checks of the
            # harnesses (assertions, unwinding assertions, safety checks), discharged UP TO THE STATED BOUNDS only
            cov["obligations"] = n_cbmc
            cov["discharged"] = n_cbmc if not real else 0
            cov["obligations_note"] = "bounded: CBMC property checks of the harnesses, valid up to the bounds listed in bounded_harnesses; not a proof"
    if cfg.get("explanation"):
        cov["explanation"] = cfg["explanation"]
    if search_info:
        cov["refutation_search"] = search_info
    cov["known_findings_reported"] = [k["obligation"] for k, _ in known_hits]
    cov["undecided"] = [u.get("what") for u in undecided]
    evidence["coverage"] = cov
    evidence["assumptions"] = cfg.get("assumptions", []) + ["see coverage.trusted_base (generated by a mechanical scan of the contract overlay)"]
    evidence["violations"] = len(real)
    evidence["wall_s"] = round(time.time() - t0, 2)
    # the proof level needs obligations == discharged; a run with known findings or bounded parts says so
    if cov["obligations"] == 0 and not any(h.get("result") == "no violation up to the bound" for h in cov["bounded_harnesses"]):
        undecided.append({"what": "no obligation was generated (vacuity guard)"})
    json.dump(evidence, open(os.path.join(EVID, pid + ".json"), "w"), indent=1)

    if real:
        rp = os.path.join(REPLAYS, "%s-%s.json" % (pid, hashlib.sha1(json.dumps([v["obligation"] for v in real]).encode()).hexdigest()[:10]))
        json.dump({"property": pid, "failed_obligations": real, "tier": a.tier,
                   "how_to_replay": "./check.py %s --replay %s" % (pid, rp)}, open(rp, "w"), indent=1)
        has_input = any(v.get("input") is not None for v in real)
        for v in real:
            print("FAILED-OBLIGATION: %s :: %s" % (v["obligation"], v.get("message", "")))
            if v.get("input") is not None:
                print("  failing input: %s" % json.dumps(v["input"]))
        print("VIOLATION property=%s replay=%s%s" % (pid, rp, "" if has_input else " no-failing-input-found"))
        return 1
    if undecided:
        for u in undecided:
            print("UNDECIDED: %s" % u.get("what"))
        return 2
    print("OK property=%s obligations=%d discharged=%d wall=%.1fs" % (pid, cov["obligations"], cov["discharged"], time.time() - t0))
    return 0


if __name__ == "__main__":
    sys.exit(main())
