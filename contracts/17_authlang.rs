// G3a (C03): user info, host and port of a valid URI authority are valid values of their types. Certificate
// uri_authority (tools/complemmas.py) restated as axioms; the link to the RFC 3986 3.2 decomposition (au_ui / au_host /
// au_port = rfc_auth) is PROVED.
verus! {
pub uninterp spec fn lang_userinfo(s: Seq<u8>) -> bool;
pub uninterp spec fn lang_host(s: Seq<u8>) -> bool;
pub uninterp spec fn lang_port(s: Seq<u8>) -> bool;

/// the host starts at hs: at 0 when the text has no '@', else right after the first '@'
pub open spec fn host_start_at(s: Seq<u8>, hs: int) -> bool {
    (hs == 0 && forall|i: int| 0 <= i < s.len() ==> #[trigger] s[i] != 64)
    || (0 < hs <= s.len() && s[hs - 1] == 64 && forall|i: int| 0 <= i < hs - 1 ==> #[trigger] s[i] != 64)
}
/// certificate comp_uri_authority::comp_userinfo
#[verifier::external_body]
pub proof fn axiom_comp_userinfo(s: Seq<u8>, k: int)
    requires lang_authority(s), 0 <= k < s.len(), s[k] == 64, forall|i: int| 0 <= i < k ==> #[trigger] s[i] != 64,
    ensures lang_userinfo(s.subrange(0, k)),
{}
/// certificate comp_uri_authority::comp_host_plain
#[verifier::external_body]
pub proof fn axiom_comp_host_plain(s: Seq<u8>, hs: int, e: int)
    requires lang_authority(s), host_start_at(s, hs), 0 <= hs <= e <= s.len(),
        forall|i: int| hs <= i < e ==> #[trigger] s[i] != 58 && s[i] != 64 && s[i] != 91, e == s.len() || s[e] == 58,
    ensures lang_host(s.subrange(hs, e)),
{}
/// certificate comp_uri_authority::comp_host_bracket
#[verifier::external_body]
pub proof fn axiom_comp_host_bracket(s: Seq<u8>, hs: int, rb: int)
    requires lang_authority(s), host_start_at(s, hs), 0 <= hs < rb < s.len(), s[hs] == 91, s[rb] == 93,
        forall|i: int| hs <= i < rb ==> #[trigger] s[i] != 93,
    ensures lang_host(s.subrange(hs, rb + 1)),
{}
/// certificate comp_uri_authority::comp_port
#[verifier::external_body]
pub proof fn axiom_comp_port(s: Seq<u8>, hs: int, he: int, bracket: bool)
    requires lang_authority(s), host_start_at(s, hs), 0 <= hs <= he < s.len(), s[he] == 58,
        forall|i: int| he < i < s.len() ==> #[trigger] s[i] != 64,
        !bracket ==> forall|i: int| hs <= i < he ==> #[trigger] s[i] != 58 && s[i] != 64 && s[i] != 91,
        bracket ==> hs < he - 1 && s[hs] == 91 && s[he - 1] == 93 && forall|i: int| hs <= i < he - 1 ==> #[trigger] s[i] != 93,
    ensures lang_port(s.subrange(he + 1, s.len() as int)),
{}

pub open spec fn au_valid(a: Seq<u8>) -> bool {
    &&& (au_ui(a) is Some ==> lang_userinfo(au_ui(a).unwrap()))
    &&& lang_host(au_host(a))
    &&& (au_port(a) is Some ==> lang_port(au_port(a).unwrap()))
}
/// PROVED: "every part is a valid value of its own type" (C03) for every valid stand-alone URI authority
pub proof fn lemma_authority_components(a: Seq<u8>)
    requires lang_authority(a), auth_shape(a, 0),
    ensures au_valid(a),
{
    lemma_auth_layout(a, 0);
    lemma_first_of_bounds(a, 0, C_AT);
    let at = a_at(a, 0);
    let hs = a_host_start(a, 0);
    if a_has_ui(a, 0) {
        assert forall|i: int| 0 <= i < at implies #[trigger] a[i] != 64 by { assert(!cls(C_AT, a[i])); }
        axiom_comp_userinfo(a, at);
    } else {
        assert forall|i: int| 0 <= i < a.len() implies #[trigger] a[i] != 64 by { assert(!cls(C_AT, a[i])); }
    }
    assert(host_start_at(a, hs));
    let he = a_host_end(a, 0);
    let bracket = hs < a.len() && a[hs] == 91;
    if bracket {
        lemma_first_of_bounds(a, hs, C_RB);
        let rb = first_of(a, hs, C_RB);
        assert forall|i: int| hs <= i < rb implies #[trigger] a[i] != 93 by { assert(!cls(C_RB, a[i])); }
        assert(rb > hs);
        axiom_comp_host_bracket(a, hs, rb);
        assert(he == rb + 1);
    } else {
        lemma_first_of_bounds(a, hs, C_COLON);
        assert forall|i: int| hs <= i < he implies #[trigger] a[i] != 58 && a[i] != 64 && a[i] != 91 by {
            assert(!cls(C_COLON, a[i]));
            if a[i] == 91 { assert(i == hs); }
        }
        axiom_comp_host_plain(a, hs, he);
    }
    if a_has_port(a, 0) {
        assert forall|i: int| he < i < a.len() implies #[trigger] a[i] != 64 by { }
        if bracket {
            let rb = first_of(a, hs, C_RB);
            assert forall|i: int| hs <= i < he - 1 implies #[trigger] a[i] != 93 by { assert(!cls(C_RB, a[i])); }
        }
        axiom_comp_port(a, hs, he, bracket);
    }
}
} // verus!
