// G3a (C03): user info, host and port of a valid URI authority are valid values of their types. Certificate
// uri_authority (tools/complemmas.py) restated as axioms; the link to the RFC 3986 3.2 decomposition (au_ui / au_host /
// au_port = rfc_auth) is PROVED.
verus! {
pub uninterp spec fn lang_userinfo(s: Seq<u8>) -> bool;
pub uninterp spec fn lang_host(s: Seq<u8>) -> bool;
pub uninterp spec fn lang_port(s: Seq<u8>) -> bool;

/// the host starts at hs: at 0 when the text has no '@', else right after the first '@'
pub open spec fn host_start_at(s: Seq<u8>, hs: int) -> bool {
    (hs == 0 && forall|i: int| 0 <= i < s.len() ==> #[trigger] s[i] != 64)
    || (0 < hs <= s.len() && s[hs - 1] == 64 && forall|i: int| 0 <= i < hs - 1 ==> #[trigger] s[i] != 64)
}
/// certificate comp_uri_authority::comp_userinfo
#[verifier::external_body]
pub proof fn axiom_comp_userinfo(s: Seq<u8>, k: int)
    requires lang_authority(s), 0 <= k < s.len(), s[k] == 64, forall|i: int| 0 <= i < k ==> #[trigger] s[i] != 64,
    ensures lang_userinfo(s.subrange(0, k)),
{}
/// certificate comp_uri_authority::comp_host_plain
#[verifier::external_body]
pub proof fn axiom_comp_host_plain(s: Seq<u8>, hs: int, e: int)
    requires lang_authority(s), host_start_at(s, hs), 0 <= hs <= e <= s.len(),
        forall|i: int| hs <= i < e ==> #[trigger] s[i] != 58 && s[i] != 64 && s[i] != 91, e == s.len() || s[e] == 58,
    ensures lang_host(s.subrange(hs, e)),
{}
/// certificate comp_uri_authority::comp_host_bracket
#[verifier::external_body]
pub proof fn axiom_comp_host_bracket(s: Seq<u8>, hs: int, rb: int)
    requires lang_authority(s), host_start_at(s, hs), 0 <= hs < rb < s.len(), s[hs] == 91, s[rb] == 93,
        forall|i: int| hs <= i < rb ==> #[trigger] s[i] != 93,
    ensures lang_host(s.subrange(hs, rb + 1)),
{}
/// certificate comp_uri_authority::comp_port
#[verifier::external_body]
pub proof fn axiom_comp_port(s: Seq<u8>, hs: int, he: int, bracket: bool)
    requires lang_authority(s), host_start_at(s, hs), 0 <= hs <= he < s.len(), s[he] == 58,
        forall|i: int| he < i < s.len() ==> #[trigger] s[i] != 64,
        !bracket ==> forall|i: int| hs <= i < he ==> #[trigger] s[i] != 58 && s[i] != 64 && s[i] != 91,
        bracket ==> hs < he - 1 && s[hs] == 91 && s[he - 1] == 93 && forall|i: int| hs <= i < he - 1 ==> #[trigger] s[i] != 93,
    ensures lang_port(s.subrange(he + 1, s.len() as int)),
{}

pub open spec fn au_valid(a: Seq<u8>) -> bool {
    &&& (au_ui(a) is Some ==> lang_userinfo(au_ui(a).unwrap()))
    &&& lang_host(au_host(a))
    &&& (au_port(a) is Some ==> lang_port(au_port(a).unwrap()))
}
/// PROVED: "every part is a valid value of its own type" (C03) for every valid stand-alone URI authority
pub proof fn lemma_authority_components(a: Seq<u8>)
    requires lang_authority(a), auth_shape(a, 0),
    ensures au_valid(a),
{
    lemma_auth_layout(a, 0);
    lemma_first_of_bounds(a, 0, C_AT);
    let at = a_at(a, 0);
    let hs = a_host_start(a, 0);
    if a_has_ui(a, 0) {
        assert forall|i: int| 0 <= i < at implies #[trigger] a[i] != 64 by { assert(!cls(C_AT, a[i])); }
        axiom_comp_userinfo(a, at);
    } else {
        assert forall|i: int| 0 <= i < a.len() implies #[trigger] a[i] != 64 by { assert(!cls(C_AT, a[i])); }
    }
    assert(host_start_at(a, hs));
    let he = a_host_end(a, 0);
    let bracket = hs < a.len() && a[hs] == 91;
    if bracket {
        lemma_first_of_bounds(a, hs, C_RB);
        let rb = first_of(a, hs, C_RB);
        assert forall|i: int| hs <= i < rb implies #[trigger] a[i] != 93 by { assert(!cls(C_RB, a[i])); }
        assert(rb > hs);
        axiom_comp_host_bracket(a, hs, rb);
        assert(he == rb + 1);
    } else {
        lemma_first_of_bounds(a, hs, C_COLON);
        assert forall|i: int| hs <= i < he implies #[trigger] a[i] != 58 && a[i] != 64 && a[i] != 91 by {
            assert(!cls(C_COLON, a[i]));
            if a[i] == 91 { assert(i == hs); }
        }
        axiom_comp_host_plain(a, hs, he);
    }
    if a_has_port(a, 0) {
        assert forall|i: int| he < i < a.len() implies #[trigger] a[i] != 64 by { }
        if bracket {
            let rb = first_of(a, hs, C_RB);
            assert forall|i: int| hs <= i < he - 1 implies #[trigger] a[i] != 93 by { assert(!cls(C_RB, a[i])); }
        }
        axiom_comp_port(a, hs, he, bracket);
    }
}

// ---- G3b: the converse, and the authority handle (C04 / C11, character level, URI family) ----
/// certificate comp_uri_authority_compose::compose_authority (k: position of the '@' when hs == k + 1; he: end of the host)
#[verifier::external_body]
pub proof fn axiom_compose_authority(s: Seq<u8>, k: int, hs: int, he: int)
    requires
        hs == 0 || (0 <= k && hs == k + 1 && hs <= s.len() && s[k] == 64 && lang_userinfo(s.subrange(0, k))),
        0 <= hs <= he <= s.len(),
        lang_host(s.subrange(hs, he)),
        he == s.len() || (s[he] == 58 && lang_port(s.subrange(he + 1, s.len() as int))),
    ensures lang_authority(s),
{}
/// PROVED: [user info '@'] host [':' port] assembled from valid parts is a valid authority
pub proof fn lemma_authority_compose(ui: Option<Seq<u8>>, h: Seq<u8>, p: Option<Seq<u8>>)
    requires ui is Some ==> lang_userinfo(ui.unwrap()), lang_host(h), p is Some ==> lang_port(p.unwrap()),
    ensures lang_authority(auth_compose(ui, h, p)),
{
    let pre = opt_prefix(ui, 64);
    let suf = opt_suffix(58, p);
    let a = auth_compose(ui, h, p);
    let ul = pre.len() as int;
    let hl = h.len() as int;
    assert(a.len() == ul + hl + suf.len());
    assert(a.subrange(ul, ul + hl) =~= h);
    match ui { Some(u) => { assert(a.subrange(0, ul - 1) =~= u); assert(a[ul - 1] == 64); }, None => { } }
    match p { Some(x) => { assert(a[ul + hl] == 58); assert(a.subrange(ul + hl + 1, a.len() as int) =~= x); }, None => { } }
    axiom_compose_authority(a, ul - 1, ul, ul + hl);
}
/// C04 / C11 for the authority handle of a URI reference: after set_userinfo / set_host / set_port - whose proved
/// postcondition is `new authority text == auth_compose(parts with one replaced)`, prefix and suffix unchanged - the
/// whole text is again in the URI-reference language. `na` is the new authority text.
pub proof fn lemma_auth_handle_valid(o: Seq<u8>, nu: Option<Seq<u8>>, nh: Seq<u8>, np: Option<Seq<u8>>)
    requires lang_uriref(o), x_has_auth(o),
        nu is Some ==> lang_userinfo(nu.unwrap()), lang_host(nh), np is Some ==> lang_port(np.unwrap()),
        authority_shape(auth_compose(nu, nh, np)),
    ensures lang_uriref(splice(o, x_hier(o) + 2, x_auth_end(o), auth_compose(nu, nh, np))),
{
    let na = auth_compose(nu, nh, np);
    lemma_authority_compose(nu, nh, np);
    axiom_uriref_facts(o);
    lemma_set_authority(o, Some(na));
    assert(set_auth_text(o, Some(na)) == splice(o, x_hier(o) + 2, x_auth_end(o), na));
    assert(set_auth_path(r_auth(o), true, r_path(o)) == r_path(o));
    lemma_set_authority_valid(o, splice(o, x_hier(o) + 2, x_auth_end(o), na), Some(na));
}
/// the three edits, spelled out: unchanged parts come from the old authority (valid by lemma_authority_components)
pub proof fn lemma_auth_edits_valid(o: Seq<u8>, a: Seq<u8>, v: Seq<u8>)
    requires lang_uriref(o), x_has_auth(o), r_auth(o) == Some(a), auth_shape(a, 0),
    ensures
        lang_userinfo(v) && authority_shape(auth_compose(Some(v), au_host(a), au_port(a))) ==> lang_uriref(splice(o, x_hier(o) + 2, x_auth_end(o), auth_compose(Some(v), au_host(a), au_port(a)))),
        authority_shape(auth_compose(None, au_host(a), au_port(a))) ==> lang_uriref(splice(o, x_hier(o) + 2, x_auth_end(o), auth_compose(None, au_host(a), au_port(a)))),
        lang_host(v) && authority_shape(auth_compose(au_ui(a), v, au_port(a))) ==> lang_uriref(splice(o, x_hier(o) + 2, x_auth_end(o), auth_compose(au_ui(a), v, au_port(a)))),
        lang_port(v) && authority_shape(auth_compose(au_ui(a), au_host(a), Some(v))) ==> lang_uriref(splice(o, x_hier(o) + 2, x_auth_end(o), auth_compose(au_ui(a), au_host(a), Some(v)))),
        authority_shape(auth_compose(au_ui(a), au_host(a), None)) ==> lang_uriref(splice(o, x_hier(o) + 2, x_auth_end(o), auth_compose(au_ui(a), au_host(a), None))),
{
    lemma_uriref_components(o);
    lemma_authority_components(a);
    if lang_userinfo(v) && authority_shape(auth_compose(Some(v), au_host(a), au_port(a))) { lemma_auth_handle_valid(o, Some(v), au_host(a), au_port(a)); }
    if authority_shape(auth_compose(None, au_host(a), au_port(a))) { lemma_auth_handle_valid(o, None, au_host(a), au_port(a)); }
    if lang_host(v) && authority_shape(auth_compose(au_ui(a), v, au_port(a))) { lemma_auth_handle_valid(o, au_ui(a), v, au_port(a)); }
    if lang_port(v) && authority_shape(auth_compose(au_ui(a), au_host(a), Some(v))) { lemma_auth_handle_valid(o, au_ui(a), au_host(a), Some(v)); }
    if authority_shape(auth_compose(au_ui(a), au_host(a), None)) { lemma_auth_handle_valid(o, au_ui(a), au_host(a), None); }
}
} // verus!
