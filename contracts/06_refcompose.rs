// reference = [ scheme ":" ] [ "//" authority ] path [ "?" query ] [ "#" fragment ]   (RFC 3986 5.3)
verus! {

pub open spec fn no_cls(s: Seq<u8>, c: int) -> bool { forall|j: int| 0 <= j < s.len() ==> !cls(c, #[trigger] s[j]) }
pub open spec fn scheme_shape(s: Seq<u8>) -> bool { s.len() > 0 && no_cls(s, C_CSQF) }
pub open spec fn authority_shape(a: Seq<u8>) -> bool { no_cls(a, C_SQF) }
pub open spec fn query_shape(q: Seq<u8>) -> bool { no_cls(q, C_F) }
/// the first segment of p contains ':' (RFC 3986 4.2: such a path cannot start a relative reference)
pub open spec fn first_seg_has_colon(p: Seq<u8>) -> bool { first_of(p, 0, C_CSQF) < p.len() && p[first_of(p, 0, C_CSQF)] == 58 }
pub open spec fn starts_dslash(p: Seq<u8>) -> bool { p.len() >= 2 && p[0] == 47 && p[1] == 47 }

pub open spec fn opt_auth(a: Option<Seq<u8>>) -> Seq<u8> { match a { Some(x) => sq2(47, 47) + x, None => sq0() } }
pub open spec fn ref_compose(sch: Option<Seq<u8>>, au: Option<Seq<u8>>, p: Seq<u8>, q: Option<Seq<u8>>, f: Option<Seq<u8>>) -> Seq<u8> {
    opt_prefix(sch, 58) + opt_auth(au) + p + opt_suffix(63, q) + opt_suffix(35, f)
}
/// the path is unambiguous in its context (RFC 3986 section 3.3)
#[verifier::opaque]
pub open spec fn path_fits(sch: Option<Seq<u8>>, au: Option<Seq<u8>>, p: Seq<u8>) -> bool {
    &&& path_shape(p)
    &&& (au is Some ==> p.len() == 0 || p[0] == 47)
    &&& (au is None ==> !starts_dslash(p))
    &&& (sch is None && au is None ==> !first_seg_has_colon(p))
}

pub open spec fn r_scheme(s: Seq<u8>) -> Option<Seq<u8>> { opt_sub(s, x_parts(s).scheme) }
pub open spec fn r_auth(s: Seq<u8>) -> Option<Seq<u8>> { opt_sub(s, x_parts(s).authority) }
pub open spec fn r_path(s: Seq<u8>) -> Seq<u8> { sub_of(s, x_parts(s).path) }
pub open spec fn r_query(s: Seq<u8>) -> Option<Seq<u8>> { opt_sub(s, x_parts(s).query) }
pub open spec fn r_frag(s: Seq<u8>) -> Option<Seq<u8>> { opt_sub(s, x_parts(s).fragment) }

/// composing well-shaped components gives a text whose decomposition is exactly those components
pub proof fn lemma_ref_compose(sch: Option<Seq<u8>>, au: Option<Seq<u8>>, p: Seq<u8>, q: Option<Seq<u8>>, f: Option<Seq<u8>>)
    requires
        opt_ok(sch, |x: Seq<u8>| scheme_shape(x)), opt_ok(au, |x: Seq<u8>| authority_shape(x)),
        path_fits(sch, au, p), opt_ok(q, |x: Seq<u8>| query_shape(x)),
    ensures ({
        let s = ref_compose(sch, au, p, q, f);
        let l1 = opt_prefix(sch, 58).len() as int;
        let l2 = l1 + opt_auth(au).len();
        let l3 = l2 + p.len();
        let l4 = l3 + opt_suffix(63, q).len();
        &&& ref_shape(s)
        &&& x_has_sch(s) == (sch is Some) && x_hier(s) == l1
        &&& x_has_auth(s) == (au is Some) && x_auth_end(s) == l2
        &&& x_path_end(s) == l3
        &&& x_has_query(s) == (q is Some) && x_query_end(s) == l4
        &&& x_has_frag(s) == (f is Some)
        &&& r_scheme(s) == sch && r_auth(s) == au && r_path(s) == p && r_query(s) == q && r_frag(s) == f
    }),
{
    reveal(path_fits);
    let s1 = opt_prefix(sch, 58);
    let s2 = opt_auth(au);
    let s4 = opt_suffix(63, q);
    let s5 = opt_suffix(35, f);
    let s = ref_compose(sch, au, p, q, f);
    let l1 = s1.len() as int;
    let l2 = l1 + s2.len();
    let l3 = l2 + p.len();
    let l4 = l3 + s4.len();
    assert(s.len() == l4 + s5.len());
    assert forall|j: int| 0 <= j < l1 implies s[j] == s1[j] by {}
    assert forall|j: int| l1 <= j < l2 implies s[j] == s2[j - l1] by {}
    assert forall|j: int| l2 <= j < l3 implies s[j] == p[j - l2] by {}
    assert forall|j: int| l3 <= j < l4 implies s[j] == s4[j - l3] by {}
    assert forall|j: int| l4 <= j < s.len() implies s[j] == s5[j - l4] by {}
    // 1. scheme
    match sch {
        Some(x) => {
            assert forall|j: int| 0 <= j < l1 - 1 implies !cls(C_CSQF, #[trigger] s[j]) by { assert(s[j] == x[j]); }
            assert(s[l1 - 1] == 58);
            lemma_first_of_is(s, 0, C_CSQF, l1 - 1);
        }
        None => {
            // the first of ':' '/' '?' '#' in s is not a ':'
            match au {
                Some(a) => { assert(s[0] == 47); lemma_first_of_is(s, 0, C_CSQF, 0); }
                None => {
                    // first CSQF char of s is the first CSQF char of p, or the start of ?query / #fragment
                    lemma_first_of_bounds(p, 0, C_CSQF);
                    let k = first_of(p, 0, C_CSQF);
                    assert forall|j: int| 0 <= j < k implies !cls(C_CSQF, #[trigger] s[j]) by { assert(s[j] == p[j]); }
                    if k < p.len() { assert(s[k] == p[k]); lemma_first_of_is(s, 0, C_CSQF, k); }
                    else {
                        if s.len() > k {
                            if q is Some { assert(s[k] == 63); } else { assert(f is Some); assert(s[k] == 35); }
                        }
                        lemma_first_of_is(s, 0, C_CSQF, k);
                    }
                }
            }
        }
    }
    assert(x_has_sch(s) == (sch is Some));
    assert(x_hier(s) == l1);
    // 2. authority
    match au {
        Some(a) => {
            assert(s[l1] == 47 && s[l1 + 1] == 47);
            assert forall|j: int| l1 + 2 <= j < l2 implies !cls(C_SQF, #[trigger] s[j]) by { assert(s[j] == a[j - l1 - 2]); }
            if l2 < s.len() {
                if p.len() > 0 { assert(s[l2] == p[0]); }
                else if q is Some { assert(s[l2] == 63); }
                else { assert(f is Some); assert(s[l2] == 35); }
            }
            lemma_first_of_is(s, l1 + 2, C_SQF, l2);
        }
        None => {
            if p.len() >= 2 { assert(s[l1] == p[0] && s[l1 + 1] == p[1]); }
            else if p.len() == 1 { assert(s[l1] == p[0]); if l1 + 1 < s.len() { if q is Some { assert(s[l1 + 1] == 63); } else { assert(s[l1 + 1] == 35); } } }
            else { if l1 < s.len() { if q is Some { assert(s[l1] == 63); } else { assert(s[l1] == 35); } } }
            assert(!dslash(s, l1));
        }
    }
    assert(x_has_auth(s) == (au is Some));
    assert(x_auth_end(s) == l2);
    // 3. path
    assert forall|j: int| l2 <= j < l3 implies !cls(C_QF, #[trigger] s[j]) by { assert(s[j] == p[j - l2]); }
    if l3 < s.len() { if q is Some { assert(s[l3] == 63); } else { assert(f is Some); assert(s[l3] == 35); } }
    lemma_first_of_is(s, l2, C_QF, l3);
    // 4. query
    match q {
        Some(x) => {
            assert(s[l3] == 63);
            assert forall|j: int| l3 + 1 <= j < l4 implies !cls(C_F, #[trigger] s[j]) by { assert(s[j] == x[j - l3 - 1]); }
            if l4 < s.len() { assert(s[l4] == 35); }
            lemma_first_of_is(s, l3 + 1, C_F, l4);
        }
        None => { }
    }
    assert(x_query_end(s) == l4);
    assert(x_has_frag(s) == (f is Some));
    // texts
    match sch { Some(x) => { assert(s.subrange(0, l1 - 1) =~= x); }, None => {} }
    match au { Some(a) => { assert(s.subrange(l1 + 2, l2) =~= a); }, None => {} }
    assert(s.subrange(l2, l3) =~= p);
    match q { Some(x) => { assert(s.subrange(l3 + 1, l4) =~= x); }, None => {} }
    match f { Some(x) => { assert(s.subrange(l4 + 1, s.len() as int) =~= x); }, None => {} }
    // ref_shape: s does not start with ':'
    if s.len() > 0 {
        match sch {
            Some(x) => { assert(s[0] == x[0]); }
            None => { }
        }
    }
}

/// every text is the composition of its App. B components, and they are well-shaped (5.3)
pub proof fn lemma_ref_decompose(s: Seq<u8>)
    requires ref_shape(s),
    ensures
        s =~= ref_compose(r_scheme(s), r_auth(s), r_path(s), r_query(s), r_frag(s)),
        opt_ok(r_scheme(s), |x: Seq<u8>| scheme_shape(x)), opt_ok(r_auth(s), |x: Seq<u8>| authority_shape(x)),
        path_fits(r_scheme(s), r_auth(s), r_path(s)), opt_ok(r_query(s), |x: Seq<u8>| query_shape(x)),
{
    reveal(path_fits);
    lemma_x_layout(s);
    lemma_first_of_bounds(s, 0, C_CSQF);
    let h = x_hier(s);
    if x_has_auth(s) { lemma_first_of_bounds(s, h + 2, C_SQF); }
    let ae = x_auth_end(s);
    lemma_first_of_bounds(s, ae, C_QF);
    let pe = x_path_end(s);
    if x_has_query(s) { lemma_first_of_bounds(s, pe + 1, C_F); }
    let p = r_path(s);
    assert(forall|j: int| 0 <= j < p.len() ==> #[trigger] p[j] == s[ae + j]);
    if !x_has_sch(s) && !x_has_auth(s) {
        // first CSQF of p == first CSQF of s (restricted to the path)
        lemma_first_of_bounds(p, 0, C_CSQF);
        let k = first_of(p, 0, C_CSQF);
        if k < p.len() && p[k] == 58 {
            assert forall|j: int| 0 <= j < k implies !cls(C_CSQF, #[trigger] s[j]) by { assert(s[j] == p[j]); }
            assert(s[k] == 58);
            lemma_first_of_is(s, 0, C_CSQF, k);
        }
    }
}

} // verus!
verus! {
/// the five pieces of a text, as sub-ranges
pub proof fn lemma_ref_pieces(s: Seq<u8>)
    requires ref_shape(s),
    ensures
        0 <= x_hier(s) <= x_auth_end(s) <= x_path_end(s) <= x_query_end(s) <= s.len(),
        s.subrange(0, x_hier(s)) =~= opt_prefix(r_scheme(s), 58),
        s.subrange(x_hier(s), x_auth_end(s)) =~= opt_auth(r_auth(s)),
        s.subrange(x_auth_end(s), x_path_end(s)) =~= r_path(s),
        s.subrange(x_path_end(s), x_query_end(s)) =~= opt_suffix(63, r_query(s)),
        s.subrange(x_query_end(s), s.len() as int) =~= opt_suffix(35, r_frag(s)),
        opt_ok(r_scheme(s), |x: Seq<u8>| scheme_shape(x)), opt_ok(r_auth(s), |x: Seq<u8>| authority_shape(x)),
        path_fits(r_scheme(s), r_auth(s), r_path(s)), opt_ok(r_query(s), |x: Seq<u8>| query_shape(x)),
{
    reveal(path_fits);
    lemma_x_layout(s);
    lemma_ref_decompose(s);
}

/// generic recomposition: text built from five pieces
pub proof fn lemma_five(a: Seq<u8>, b: Seq<u8>, c: Seq<u8>, d: Seq<u8>, e: Seq<u8>, sch: Option<Seq<u8>>, au: Option<Seq<u8>>, p: Seq<u8>, q: Option<Seq<u8>>, f: Option<Seq<u8>>)
    requires a =~= opt_prefix(sch, 58), b =~= opt_auth(au), c =~= p, d =~= opt_suffix(63, q), e =~= opt_suffix(35, f),
    ensures a + b + c + d + e =~= ref_compose(sch, au, p, q, f),
{
    reveal(path_fits);
}

/// the documented disambiguations (RFC 3986 3.3 / 4.2), as the path text that must result
pub open spec fn shield_colon(p: Seq<u8>) -> Seq<u8> { sq2(46, 47) + p }     // "./" + p
pub open spec fn shield_dslash(p: Seq<u8>) -> Seq<u8> { sq2(47, 46) + p }    // "/." + p
pub open spec fn make_abs(p: Seq<u8>) -> Seq<u8> { sq1(47) + p }             // "/" + p
pub open spec fn fit_path(sch: Option<Seq<u8>>, au: Option<Seq<u8>>, p: Seq<u8>) -> Seq<u8> {
    if au is Some { if p.len() == 0 || p[0] == 47 { p } else { make_abs(p) } }
    else if starts_dslash(p) { shield_dslash(p) }
    else if sch is None && first_seg_has_colon(p) { shield_colon(p) }
    else { p }
}
/// variant used by set_authority(Some): an empty path stays empty only if it already was absolute
pub proof fn lemma_fit_path(sch: Option<Seq<u8>>, au: Option<Seq<u8>>, p: Seq<u8>)
    requires path_shape(p),
    ensures path_fits(sch, au, fit_path(sch, au, p)),
{
    reveal(path_fits);
    let r = fit_path(sch, au, p);
    if au is Some {
        if !(p.len() == 0 || p[0] == 47) { assert(r[0] == 47); assert(forall|j: int| 1 <= j < r.len() ==> #[trigger] r[j] == p[j - 1]); }
    } else if starts_dslash(p) {
        assert(r[0] == 47 && r[1] == 46);
        assert(forall|j: int| 2 <= j < r.len() ==> #[trigger] r[j] == p[j - 2]);
        lemma_first_of_is(r, 0, C_CSQF, 0);
    } else if sch is None && first_seg_has_colon(p) {
        assert(r[0] == 46 && r[1] == 47);
        assert(forall|j: int| 2 <= j < r.len() ==> #[trigger] r[j] == p[j - 2]);
        assert(first_of(r, 0, C_CSQF) == first_of(r, 1, C_CSQF));
        lemma_first_of_is(r, 1, C_CSQF, 1);
    }
}
} // verus!
verus! {
/// the postcondition of every component setter (C05): the new text is the recomposition of the
/// five intended components, it is still a reference (does not start with ':'), and reading the
/// components back gives exactly those five
pub open spec fn set_post(o: Seq<u8>, n: Seq<u8>, sch: Option<Seq<u8>>, au: Option<Seq<u8>>, p: Seq<u8>, q: Option<Seq<u8>>, f: Option<Seq<u8>>) -> bool {
    &&& n =~= ref_compose(sch, au, p, q, f)
    &&& ref_shape(n)
    &&& r_scheme(n) == sch && r_auth(n) == au && r_path(n) == p && r_query(n) == q && r_frag(n) == f
}

/// from "the new text is the old pieces with one of them replaced" to set_post
pub proof fn lemma_set_pieces(o: Seq<u8>, n: Seq<u8>, sch: Option<Seq<u8>>, au: Option<Seq<u8>>, p: Seq<u8>, q: Option<Seq<u8>>, f: Option<Seq<u8>>)
    requires
        n =~= opt_prefix(sch, 58) + opt_auth(au) + p + opt_suffix(63, q) + opt_suffix(35, f),
        opt_ok(sch, |x: Seq<u8>| scheme_shape(x)), opt_ok(au, |x: Seq<u8>| authority_shape(x)),
        path_fits(sch, au, p), opt_ok(q, |x: Seq<u8>| query_shape(x)),
    ensures set_post(o, n, sch, au, p, q, f),
{
    reveal(path_fits);
    lemma_ref_compose(sch, au, p, q, f);
}
} // verus!

verus! {
pub proof fn lemma_cs_is_csqf(p: Seq<u8>, from: int)
    requires path_shape(p), 0 <= from <= p.len(),
    ensures first_of(p, from, C_CS) == first_of(p, from, C_CSQF),
    decreases p.len() - from
{
    reveal(path_fits);
    if from < p.len() && !cls(C_CS, p[from]) { lemma_cs_is_csqf(p, from + 1); }
}
} // verus!

verus! {
/// the path that must result from set_authority: a non-empty relative path gains '/' when an authority
/// appears (an empty path stays empty: RFC 3986 path-abempty), a path starting with "//" gains "/." when the authority disappears
pub open spec fn set_auth_path(old_au: Option<Seq<u8>>, new_some: bool, p: Seq<u8>) -> Seq<u8> {
    if new_some { if old_au is Some || p.len() == 0 || p[0] == 47 { p } else { make_abs(p) } }
    else if old_au is Some && starts_dslash(p) { shield_dslash(p) }
    else { p }
}
pub proof fn lemma_set_auth_path(sch: Option<Seq<u8>>, old_au: Option<Seq<u8>>, new_some: bool, p: Seq<u8>)
    requires path_fits(sch, old_au, p),
    ensures
        new_some ==> path_fits(sch, Some(sq0()), set_auth_path(old_au, new_some, p)),
        !new_some ==> path_fits(sch, None, set_auth_path(old_au, new_some, p)),
{
    reveal(path_fits);
    let r = set_auth_path(old_au, new_some, p);
    if new_some {
        if !(old_au is Some || p.len() == 0 || p[0] == 47) { assert(r[0] == 47); assert(forall|j: int| 1 <= j < r.len() ==> #[trigger] r[j] == p[j - 1]); }
    } else if old_au is Some {
        if starts_dslash(p) {
            assert(r[0] == 47 && r[1] == 46);
            assert(forall|j: int| 2 <= j < r.len() ==> #[trigger] r[j] == p[j - 2]);
            lemma_first_of_is(r, 0, C_CSQF, 0);
        } else {
            if p.len() > 0 { lemma_first_of_is(p, 0, C_CSQF, 0); }
        }
    }
}
} // verus!
verus! {
/// what set_authority does to the text, case by case (as one splice of the old text)
pub open spec fn set_auth_text(o: Seq<u8>, na: Option<Seq<u8>>) -> Seq<u8> {
    let h = x_hier(o); let ae = x_auth_end(o); let p = r_path(o);
    match na {
        Some(x) => if x_has_auth(o) { splice(o, h + 2, ae, x) }
                   else if p.len() == 0 || p[0] == 47 { splice(o, h, h, sq2(47, 47) + x) }
                   else { splice(o, h, h, sq2(47, 47) + x + sq1(47)) },
        None => if x_has_auth(o) { if starts_dslash(p) { splice(o, h, ae, sq2(47, 46)) } else { splice(o, h, ae, sq0()) } } else { o },
    }
}
pub open spec fn set_auth_post(o: Seq<u8>, n: Seq<u8>, na: Option<Seq<u8>>) -> bool {
    set_post(o, n, r_scheme(o), na, set_auth_path(r_auth(o), na is Some, r_path(o)), r_query(o), r_frag(o))
}
proof fn lemma_sa_tail(o: Seq<u8>)
    requires ref_shape(o),
    ensures
        o.subrange(x_auth_end(o), o.len() as int) =~= r_path(o) + opt_suffix(63, r_query(o)) + opt_suffix(35, r_frag(o)),
        o.subrange(x_path_end(o), o.len() as int) =~= opt_suffix(63, r_query(o)) + opt_suffix(35, r_frag(o)),
{
    reveal(path_fits);
    lemma_ref_pieces(o);
    let ae = x_auth_end(o); let pe = x_path_end(o); let qe = x_query_end(o);
    assert(o.subrange(ae, o.len() as int) =~= o.subrange(ae, pe) + o.subrange(pe, qe) + o.subrange(qe, o.len() as int));
    assert(o.subrange(pe, o.len() as int) =~= o.subrange(pe, qe) + o.subrange(qe, o.len() as int));
}
proof fn lemma_sa_some_has(o: Seq<u8>, x: Seq<u8>)
    requires ref_shape(o), authority_shape(x), x_has_auth(o),
    ensures set_auth_post(o, set_auth_text(o, Some(x)), Some(x)),
{
    reveal(path_fits);
    lemma_ref_pieces(o); lemma_sa_tail(o);
    let h = x_hier(o); let ae = x_auth_end(o);
    let n = set_auth_text(o, Some(x));
    assert(o.subrange(0, h + 2) =~= o.subrange(0, h) + sq2(47, 47));
    assert(n =~= opt_prefix(r_scheme(o), 58) + opt_auth(Some(x)) + r_path(o) + opt_suffix(63, r_query(o)) + opt_suffix(35, r_frag(o)));
    lemma_set_auth_path(r_scheme(o), r_auth(o), true, r_path(o));
    lemma_set_pieces(o, n, r_scheme(o), Some(x), r_path(o), r_query(o), r_frag(o));
}
proof fn lemma_sa_some_abs(o: Seq<u8>, x: Seq<u8>)
    requires ref_shape(o), authority_shape(x), !x_has_auth(o), r_path(o).len() == 0 || r_path(o)[0] == 47,
    ensures set_auth_post(o, set_auth_text(o, Some(x)), Some(x)),
{
    reveal(path_fits);
    lemma_ref_pieces(o); lemma_sa_tail(o);
    let h = x_hier(o);
    let n = set_auth_text(o, Some(x));
    assert(n =~= opt_prefix(r_scheme(o), 58) + opt_auth(Some(x)) + r_path(o) + opt_suffix(63, r_query(o)) + opt_suffix(35, r_frag(o)));
    lemma_set_auth_path(r_scheme(o), r_auth(o), true, r_path(o));
    lemma_set_pieces(o, n, r_scheme(o), Some(x), r_path(o), r_query(o), r_frag(o));
}
proof fn lemma_sa_some_rel(o: Seq<u8>, x: Seq<u8>)
    requires ref_shape(o), authority_shape(x), !x_has_auth(o), r_path(o).len() > 0 && r_path(o)[0] != 47,
    ensures set_auth_post(o, set_auth_text(o, Some(x)), Some(x)),
{
    reveal(path_fits);
    lemma_ref_pieces(o); lemma_sa_tail(o);
    let h = x_hier(o);
    let n = set_auth_text(o, Some(x));
    let np = make_abs(r_path(o));
    assert(n =~= opt_prefix(r_scheme(o), 58) + opt_auth(Some(x)) + np + opt_suffix(63, r_query(o)) + opt_suffix(35, r_frag(o)));
    lemma_set_auth_path(r_scheme(o), r_auth(o), true, r_path(o));
    lemma_set_pieces(o, n, r_scheme(o), Some(x), np, r_query(o), r_frag(o));
}
proof fn lemma_sa_none(o: Seq<u8>)
    requires ref_shape(o),
    ensures set_auth_post(o, set_auth_text(o, None), None),
{
    reveal(path_fits);
    lemma_ref_pieces(o); lemma_sa_tail(o);
    let h = x_hier(o); let ae = x_auth_end(o);
    let n = set_auth_text(o, None);
    let np = set_auth_path(r_auth(o), false, r_path(o));
    lemma_set_auth_path(r_scheme(o), r_auth(o), false, r_path(o));
    if x_has_auth(o) {
        if starts_dslash(r_path(o)) {
            assert(n =~= opt_prefix(r_scheme(o), 58) + opt_auth(None) + np + opt_suffix(63, r_query(o)) + opt_suffix(35, r_frag(o)));
        } else {
            assert(n =~= opt_prefix(r_scheme(o), 58) + opt_auth(None) + np + opt_suffix(63, r_query(o)) + opt_suffix(35, r_frag(o)));
        }
    } else {
        assert(n =~= opt_prefix(r_scheme(o), 58) + opt_auth(None) + np + opt_suffix(63, r_query(o)) + opt_suffix(35, r_frag(o)));
    }
    lemma_set_pieces(o, n, r_scheme(o), None, np, r_query(o), r_frag(o));
}
pub proof fn lemma_set_authority(o: Seq<u8>, na: Option<Seq<u8>>)
    requires ref_shape(o), opt_ok(na, |x: Seq<u8>| authority_shape(x)),
    ensures set_auth_post(o, set_auth_text(o, na), na),
{
    reveal(path_fits);
    match na {
        Some(x) => {
            if x_has_auth(o) { lemma_sa_some_has(o, x); }
            else if r_path(o).len() == 0 || r_path(o)[0] == 47 { lemma_sa_some_abs(o, x); }
            else { lemma_sa_some_rel(o, x); }
        },
        None => { lemma_sa_none(o); },
    }
}
} // verus!

verus! {
/// first_of in a prefix that ends at or before the first hit
pub proof fn lemma_first_of_prefix(s: Seq<u8>, e: int, from: int, c: int)
    requires 0 <= from <= e <= s.len(),
    ensures first_of(s.subrange(0, e), from, c) == (if first_of(s, from, c) < e { first_of(s, from, c) } else { e }),
    decreases e - from
{
    reveal(path_fits);
    let t = s.subrange(0, e);
    lemma_first_of_bounds(s, from, c);
    if from < e {
        assert(t[from] == s[from]);
        if !cls(c, s[from]) {
            lemma_first_of_prefix(s, e, from + 1, c);
            lemma_first_of_bounds(s, from + 1, c);
        }
    }
}
/// the text before the path (scheme ":" "//" authority) has an authority iff the whole text has
pub proof fn lemma_prefix_auth(s: Seq<u8>)
    ensures x_has_auth(s.subrange(0, x_auth_end(s))) == x_has_auth(s),
{
    reveal(path_fits);
    lemma_x_layout(s);
    let e = x_auth_end(s);
    let t = s.subrange(0, e);
    lemma_first_of_bounds(s, 0, C_CSQF);
    lemma_first_of_prefix(s, e, 0, C_CSQF);
    let k = x_sch_end(s);
    assert(forall|j: int| 0 <= j < e ==> #[trigger] t[j] == s[j]);
    if x_has_sch(s) {
        assert(k < e);
    } else {
        // no scheme in s: the first of ":/?#" in s is not a ':'; in t it is the same position or e
        if k < e { assert(t[k] == s[k]); }
    }
}
} // verus!

verus! {
pub proof fn lemma_sa_tail_pub(o: Seq<u8>)
    requires ref_shape(o),
    ensures
        o.subrange(x_auth_end(o), o.len() as int) =~= r_path(o) + opt_suffix(63, r_query(o)) + opt_suffix(35, r_frag(o)),
        o.subrange(x_path_end(o), o.len() as int) =~= opt_suffix(63, r_query(o)) + opt_suffix(35, r_frag(o)),
{
    reveal(path_fits);
    lemma_sa_tail(o);
}
} // verus!
