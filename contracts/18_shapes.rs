// The structural shapes most contracts take as preconditions (path_shape, seg_shape, query_shape, authority_shape,
// scheme_shape, ui_shape, port_shape) are consequences of membership in the RFC languages: certificate uri_shapes
// (tools/complemmas.py) restated as one axiom; with it "valid value of its type" is the only type invariant the URI
// family needs at the spec level.
verus! {
/// certificate comp_uri_shapes::{comp_path_shape, comp_segment_shape, comp_query_shape, comp_authority_shape,
/// comp_scheme_shape, comp_scheme_nonempty, comp_userinfo_shape, comp_port_shape}
#[verifier::external_body]
pub proof fn axiom_shapes(x: Seq<u8>)
    ensures
        lang_path(x) ==> path_shape(x),
        lang_segment(x) ==> seg_shape(x),
        lang_query(x) ==> query_shape(x),
        lang_authority(x) ==> authority_shape(x),
        lang_scheme(x) ==> scheme_shape(x),
        lang_userinfo(x) ==> ui_shape(x),
        lang_port(x) ==> port_shape(x),
{}
/// PROVED: the path-handle edits of lemma_ref_path_ops_valid, with validity of the segment as the only hypothesis on it
pub proof fn lemma_ref_path_ops_valid2(o: Seq<u8>, seg: Seq<u8>)
    requires lang_uriref(o), lang_segment(seg),
    ensures ({
        let fa = x_has_auth(o); let at0 = x_auth_end(o) == 0; let p = r_path(o);
        &&& lang_uriref(with_path(o, push_text(p, seg, fa, at0)))
        &&& lang_uriref(with_path(o, pop_text(p, fa, at0)))
        &&& lang_uriref(with_path(o, clear_text(p)))
        &&& lang_uriref(with_path(o, sym_push_text(p, seg, fa, at0)))
        &&& lang_uriref(with_path(o, normalize_text(p, fa, at0)))
    }),
{
    axiom_shapes(seg);
    lemma_ref_path_ops_valid(o, seg);
}
/// PROVED: the components of a valid URI reference have the shapes the setter contracts ask of their arguments
pub proof fn lemma_component_shapes(s: Seq<u8>)
    requires lang_uriref(s),
    ensures
        r_scheme(s) is Some ==> scheme_shape(r_scheme(s).unwrap()),
        r_auth(s) is Some ==> authority_shape(r_auth(s).unwrap()),
        path_shape(r_path(s)),
        r_query(s) is Some ==> query_shape(r_query(s).unwrap()),
{
    lemma_uriref_components(s);
    if r_scheme(s) is Some { axiom_shapes(r_scheme(s).unwrap()); }
    if r_auth(s) is Some { axiom_shapes(r_auth(s).unwrap()); }
    axiom_shapes(r_path(s));
    if r_query(s) is Some { axiom_shapes(r_query(s).unwrap()); }
}
} // verus!
