// Composition lemmas: decomposing a composed text gives the parts back (and vice versa).
// They carry C03's "reassembles the original text" and the mutators' invariant preservation.
verus! {

pub proof fn lemma_first_of_concat(a: Seq<u8>, b: Seq<u8>, from: int, c: int)
    requires 0 <= from <= a.len(),
    ensures first_of(a + b, from, c) == (if first_of(a, from, c) < a.len() { first_of(a, from, c) } else { a.len() + first_of(b, 0, c) }),
    decreases a.len() - from
{
    let t = a + b;
    if from < a.len() {
        assert(t[from] == a[from]);
        if !cls(c, a[from]) { lemma_first_of_concat(a, b, from + 1, c); }
    } else {
        lemma_first_of_shift(a, b, 0, c);
    }
}

/// first_of in the right operand of a concatenation
pub proof fn lemma_first_of_shift(a: Seq<u8>, b: Seq<u8>, from: int, c: int)
    requires 0 <= from <= b.len(),
    ensures first_of(a + b, a.len() + from, c) == a.len() + first_of(b, from, c),
    decreases b.len() - from
{
    let t = a + b;
    if from < b.len() {
        assert(t[a.len() + from] == b[from]);
        if !cls(c, b[from]) { lemma_first_of_shift(a, b, from + 1, c); }
    }
}

/// first_of inside a sub-range that ends at the end of the text
pub proof fn lemma_first_of_suffix(s: Seq<u8>, i: int, from: int, c: int)
    requires 0 <= i <= from <= s.len(),
    ensures first_of(s.subrange(i, s.len() as int), from - i, c) == first_of(s, from, c) - i,
    decreases s.len() - from
{
    let t = s.subrange(i, s.len() as int);
    if from < s.len() {
        assert(t[from - i] == s[from]);
        if !cls(c, s[from]) { lemma_first_of_suffix(s, i, from + 1, c); }
    }
}

pub proof fn lemma_first_of_none(s: Seq<u8>, from: int, c: int)
    requires 0 <= from <= s.len(), forall|j: int| from <= j < s.len() ==> !cls(c, #[trigger] s[j]),
    ensures first_of(s, from, c) == s.len(),
    decreases s.len() - from
{
    if from < s.len() { lemma_first_of_none(s, from + 1, c); }
}

// ---- authority = [ userinfo "@" ] host [ ":" port ] ------------------------------------------
pub open spec fn ui_shape(u: Seq<u8>) -> bool { forall|j: int| 0 <= j < u.len() ==> #[trigger] u[j] != 64 && u[j] != 91 }
pub open spec fn port_shape(p: Seq<u8>) -> bool { forall|j: int| 0 <= j < p.len() ==> #[trigger] p[j] != 64 && p[j] != 91 }
/// host: no '@'; either an IP-literal "[" ... "]" whose only brackets are the first and last byte,
/// or a text without ':' and '['
pub open spec fn host_shape(h: Seq<u8>) -> bool {
    &&& (forall|j: int| 0 <= j < h.len() ==> #[trigger] h[j] != 64)
    &&& (forall|j: int| 1 <= j < h.len() ==> #[trigger] h[j] != 91)
    &&& (h.len() > 0 && h[0] == 91 ==> h.len() >= 2 && h[h.len() - 1] == 93 && (forall|j: int| 0 <= j < h.len() - 1 ==> #[trigger] h[j] != 93))
    &&& (!(h.len() > 0 && h[0] == 91) ==> (forall|j: int| 0 <= j < h.len() ==> #[trigger] h[j] != 58))
}

pub open spec fn opt_prefix(u: Option<Seq<u8>>, d: u8) -> Seq<u8> { match u { Some(x) => x + sq1(d), None => sq0() } }
pub open spec fn opt_suffix(d: u8, p: Option<Seq<u8>>) -> Seq<u8> { match p { Some(x) => sq1(d) + x, None => sq0() } }
pub open spec fn auth_compose(ui: Option<Seq<u8>>, h: Seq<u8>, p: Option<Seq<u8>>) -> Seq<u8> {
    opt_prefix(ui, 64) + h + opt_suffix(58, p)
}
pub open spec fn opt_ok(o: Option<Seq<u8>>, f: spec_fn(Seq<u8>) -> bool) -> bool { match o { Some(x) => f(x), None => true } }

/// composing valid parts gives a text whose RFC 3.2 decomposition is exactly those parts
pub proof fn lemma_auth_compose(ui: Option<Seq<u8>>, h: Seq<u8>, p: Option<Seq<u8>>)
    requires opt_ok(ui, |x: Seq<u8>| ui_shape(x)), host_shape(h), opt_ok(p, |x: Seq<u8>| port_shape(x)),
    ensures ({
        let a = auth_compose(ui, h, p);
        let ul = opt_prefix(ui, 64).len() as int;
        &&& auth_shape(a, 0)
        &&& a_has_ui(a, 0) == (ui is Some)
        &&& (ui is Some ==> a_at(a, 0) == ul - 1)
        &&& a_host_start(a, 0) == ul
        &&& a_host_end(a, 0) == ul + h.len()
        &&& a_has_port(a, 0) == (p is Some)
    }),
{
    let pre = opt_prefix(ui, 64);
    let suf = opt_suffix(58, p);
    let a = auth_compose(ui, h, p);
    let ul = pre.len() as int;
    let hl = h.len() as int;
    assert(a.len() == ul + hl + suf.len());
    assert forall|j: int| 0 <= j < ul implies a[j] == pre[j] by {}
    assert forall|j: int| ul <= j < ul + hl implies a[j] == h[j - ul] by {}
    assert forall|j: int| ul + hl <= j < a.len() implies a[j] == suf[j - ul - hl] by {}
    // first '@'
    match ui {
        Some(u) => {
            assert(pre[ul - 1] == 64);
            assert forall|j: int| 0 <= j < ul - 1 implies !cls(C_AT, #[trigger] a[j]) by { assert(a[j] == u[j]); }
            lemma_first_of_is(a, 0, C_AT, ul - 1);
        }
        None => {
            assert forall|j: int| 0 <= j < a.len() implies !cls(C_AT, #[trigger] a[j]) by {
                if j < hl { assert(a[j] == h[j]); } else { match p { Some(x) => { if j > hl { assert(a[j] == x[j - hl - 1]); } }, None => {} } }
            }
            lemma_first_of_none(a, 0, C_AT);
        }
    }
    assert(a_host_start(a, 0) == ul);
    // host end
    if hl > 0 && h[0] == 91 {
        assert(a[ul] == 91);
        assert forall|j: int| ul <= j < ul + hl - 1 implies !cls(C_RB, #[trigger] a[j]) by { assert(a[j] == h[j - ul]); }
        assert(a[ul + hl - 1] == 93);
        lemma_first_of_is(a, ul, C_RB, ul + hl - 1);
    } else {
        assert forall|j: int| ul <= j < ul + hl implies !cls(C_COLON, #[trigger] a[j]) by { assert(a[j] == h[j - ul]); }
        if ul + hl < a.len() { assert(a[ul + hl] == suf[0]); }
        lemma_first_of_is(a, ul, C_COLON, ul + hl);
        if ul < a.len() && hl == 0 { }
    }
    assert(a_host_end(a, 0) == ul + hl);
    // shape
    assert forall|j: int| 0 <= j < a.len() && #[trigger] a[j] == 91 implies j == ul by {
        if j < ul { match ui { Some(u) => { if j < ul - 1 { assert(a[j] == u[j]); } }, None => {} } }
        else if j < ul + hl { assert(a[j] == h[j - ul]); }
        else { match p { Some(x) => { if j > ul + hl { assert(a[j] == x[j - ul - hl - 1]); } }, None => {} } }
    }
    assert forall|j: int| a_at(a, 0) < j < a.len() implies #[trigger] a[j] != 64 by {
        if j < ul { }
        else if j < ul + hl { assert(a[j] == h[j - ul]); }
        else { match p { Some(x) => { if j > ul + hl { assert(a[j] == x[j - ul - hl - 1]); } }, None => {} } }
    }
}

/// a well-shaped authority text is the composition of its RFC 3.2 parts, which are well-shaped
pub proof fn lemma_auth_decompose(a: Seq<u8>)
    requires auth_shape(a, 0),
    ensures ({
        let ui = if a_has_ui(a, 0) { Some(a.subrange(0, a_at(a, 0))) } else { None };
        let h = a.subrange(a_host_start(a, 0), a_host_end(a, 0));
        let p = if a_has_port(a, 0) { Some(a.subrange(a_host_end(a, 0) + 1, a.len() as int)) } else { None };
        &&& (a_has_port(a, 0) || a_host_end(a, 0) == a.len())
        &&& a =~= auth_compose(ui, h, p)
        &&& opt_ok(ui, |x: Seq<u8>| ui_shape(x)) && host_shape(h) && opt_ok(p, |x: Seq<u8>| port_shape(x))
    }),
{
    lemma_auth_layout(a, 0);
    lemma_first_of_bounds(a, 0, C_AT);
    let at = a_at(a, 0);
    let hs = a_host_start(a, 0);
    let he = a_host_end(a, 0);
    lemma_first_of_bounds(a, hs, C_RB);
    lemma_first_of_bounds(a, hs, C_COLON);
    let ui = if a_has_ui(a, 0) { Some(a.subrange(0, at)) } else { None };
    let h = a.subrange(hs, he);
    let p = if a_has_port(a, 0) { Some(a.subrange(he + 1, a.len() as int)) } else { None };
    // no '@' from the host on
    assert forall|j: int| hs <= j < a.len() implies #[trigger] a[j] != 64 by { }
    assert(forall|j: int| 0 <= j < h.len() ==> #[trigger] h[j] == a[hs + j]);
    match ui { Some(u) => { assert(forall|j: int| 0 <= j < u.len() ==> #[trigger] u[j] == a[j]); }, None => {} }
    match p { Some(x) => { assert(forall|j: int| 0 <= j < x.len() ==> #[trigger] x[j] == a[he + 1 + j]); }, None => {} }
    assert(host_shape(h));
    assert(a =~= auth_compose(ui, h, p));
}

} // verus!
verus! {
pub open spec fn au_ui(a: Seq<u8>) -> Option<Seq<u8>> { if a_has_ui(a, 0) { Some(a.subrange(0, a_at(a, 0))) } else { None } }
pub open spec fn au_host(a: Seq<u8>) -> Seq<u8> { a.subrange(a_host_start(a, 0), a_host_end(a, 0)) }
pub open spec fn au_port(a: Seq<u8>) -> Option<Seq<u8>> { if a_has_port(a, 0) { Some(a.subrange(a_host_end(a, 0) + 1, a.len() as int)) } else { None } }

/// replacing / inserting / removing the user info of `a` = recomposing with the new user info
pub proof fn lemma_set_ui(a: Seq<u8>, nu: Option<Seq<u8>>)
    requires auth_shape(a, 0),
    ensures opt_prefix(nu, 64) + a.subrange(a_host_start(a, 0), a.len() as int) =~= auth_compose(nu, au_host(a), au_port(a)),
{
    lemma_auth_decompose(a);
    lemma_auth_layout(a, 0);
    let hs = a_host_start(a, 0);
    let he = a_host_end(a, 0);
    assert(a.subrange(hs, a.len() as int) =~= au_host(a) + opt_suffix(58, au_port(a)));
}
pub proof fn lemma_set_host(a: Seq<u8>, nh: Seq<u8>)
    requires auth_shape(a, 0),
    ensures a.subrange(0, a_host_start(a, 0)) + nh + a.subrange(a_host_end(a, 0), a.len() as int) =~= auth_compose(au_ui(a), nh, au_port(a)),
{
    lemma_auth_decompose(a);
    lemma_auth_layout(a, 0);
    let hs = a_host_start(a, 0);
    let he = a_host_end(a, 0);
    assert(a.subrange(0, hs) =~= opt_prefix(au_ui(a), 64));
    assert(a.subrange(he, a.len() as int) =~= opt_suffix(58, au_port(a)));
}
pub proof fn lemma_set_port(a: Seq<u8>, np: Option<Seq<u8>>)
    requires auth_shape(a, 0),
    ensures a.subrange(0, a_host_end(a, 0)) + opt_suffix(58, np) =~= auth_compose(au_ui(a), au_host(a), np),
{
    lemma_auth_decompose(a);
    lemma_auth_layout(a, 0);
    let hs = a_host_start(a, 0);
    let he = a_host_end(a, 0);
    assert(a.subrange(0, he) =~= opt_prefix(au_ui(a), 64) + au_host(a));
}
} // verus!
verus! {
/// a splice inside a window [lo, hi) of a buffer: the prefix before the window and the suffix after
/// it are untouched, and the new window content is the old one with the range replaced
pub proof fn lemma_window_splice(o: Seq<u8>, lo: int, a: int, b: int, hi: int, c: Seq<u8>, n: Seq<u8>)
    requires 0 <= lo <= a <= b <= hi <= o.len(), n == splice(o, a, b, c),
    ensures ({
        let hi2 = hi - (b - a) + c.len();
        &&& n.len() == o.len() - (b - a) + c.len()
        &&& n.subrange(0, lo) =~= o.subrange(0, lo)
        &&& n.subrange(hi2, n.len() as int) =~= o.subrange(hi, o.len() as int)
        &&& n.subrange(lo, hi2) =~= o.subrange(lo, a) + c + o.subrange(b, hi)
    }),
{
}

/// a buffer described element-wise as "prefix kept, c inserted at a, rest shifted" is that splice
pub proof fn lemma_is_splice(o: Seq<u8>, a: int, b: int, c: Seq<u8>, n: Seq<u8>)
    requires 0 <= a <= b <= o.len(), n.len() == o.len() - (b - a) + c.len(),
        forall|k: int| 0 <= k < a ==> n[k] == o[k],
        forall|k: int| a <= k < a + c.len() ==> n[k] == c[k - a],
        forall|k: int| a + c.len() <= k < n.len() ==> n[k] == o[k - c.len() + (b - a)],
    ensures n =~= splice(o, a, b, c),
{
}
} // verus!
verus! {
/// overwriting part of the filler of a splice is a splice with the updated filler
pub proof fn lemma_splice_in_filler(o: Seq<u8>, a: int, b: int, f: Seq<u8>, j: int, x: Seq<u8>)
    requires 0 <= a <= b <= o.len(), 0 <= j, j + x.len() <= f.len(),
    ensures splice(splice(o, a, b, f), a + j, a + j + x.len(), x) =~= splice(o, a, b, f.subrange(0, j) + x + f.subrange(j + x.len(), f.len() as int)),
{
}
pub proof fn lemma_update_in_filler(o: Seq<u8>, a: int, b: int, f: Seq<u8>, j: int, v: u8)
    requires 0 <= a <= b <= o.len(), 0 <= j < f.len(),
    ensures splice(o, a, b, f).update(a + j, v) =~= splice(o, a, b, f.update(j, v)),
{
}
} // verus!
