// C04, character level, path handle (URI family): the texts produced by push / pop / clear / symbolic_push / normalize are
// valid paths when the old path and the pushed segment are. Closure facts about the path language are proved as a
// certificate over the Path / Segment automata (tools/complemmas.py: uri_path_algebra) and restated here as axioms; the
// lemmas over the exact result texts (contracts/07_pathmut.rs, 09_norm.rs) are PROVED.
verus! {
pub uninterp spec fn lang_segment(s: Seq<u8>) -> bool;
/// certificate comp_uri_path_algebra::comp_segment_is_path
#[verifier::external_body]
pub proof fn axiom_segment_is_path(x: Seq<u8>)
    requires lang_segment(x),
    ensures lang_path(x),
{}
/// certificate comp_uri_path_algebra::comp_path_concat
#[verifier::external_body]
pub proof fn axiom_path_concat(u: Seq<u8>, v: Seq<u8>)
    requires lang_path(u), lang_path(v),
    ensures lang_path(u + v),
{}
/// certificate comp_uri_path_algebra::comp_path_split
#[verifier::external_body]
pub proof fn axiom_path_split(u: Seq<u8>, v: Seq<u8>)
    requires lang_path(u + v), v.len() == 0 || v[0] == 47,
    ensures lang_path(u), lang_path(v),
{}
/// certificate comp_uri_path_algebra::comp_path_strip_slash
#[verifier::external_body]
pub proof fn axiom_path_strip_slash(r: Seq<u8>)
    requires lang_path(sq1(47) + r),
    ensures lang_path(r),
{}
/// certificate comp_uri_path_algebra::comp_path_consts
#[verifier::external_body]
pub proof fn axiom_path_consts()
    ensures lang_path(sq0()), lang_path(sq1(47)), lang_path(sq1(46)), lang_path(sq2(46, 46)), lang_path(sq2(46, 47)), lang_path(sq2(47, 47)),
        lang_segment(sq2(46, 46)), lang_segment(sq0()),
{}

pub proof fn lemma_push_valid(p: Seq<u8>, seg: Seq<u8>, fa: bool, at0: bool)
    requires lang_path(p), lang_segment(seg),
    ensures lang_path(push_text(p, seg, fa, at0)),
{
    reveal(push_text0);
    axiom_path_consts();
    axiom_segment_is_path(seg);
    let q = if fa && !at0 && p.len() == 0 { sq1(47) } else { p };
    if p_is_empty(q) {
        if (at0 && has_colon(seg)) || seg.len() == 0 {
            axiom_path_concat(q, sq2(46, 47)); axiom_path_concat(q + sq2(46, 47), seg);
        } else { axiom_path_concat(q, seg); }
    } else if fa && is_shield3(q) {
        axiom_path_concat(sq2(47, 47), seg);
    } else {
        axiom_path_concat(q, sq1(47)); axiom_path_concat(q + sq1(47), seg);
    }
}
/// the start of the last piece of a path is preceded by a '/' (or is the first piece)
proof fn lemma_seg_start_slash(p: Seq<u8>, fo: int, e: int)
    requires 0 <= fo <= e <= p.len(),
    ensures fo <= seg_start_of(p, fo, e) <= e, seg_start_of(p, fo, e) > fo ==> p[seg_start_of(p, fo, e) - 1] == 47,
    decreases e
{
    if !(e <= fo || e <= 0) && p[e - 1] != 47 { lemma_seg_start_slash(p, fo, e - 1); }
}
pub proof fn lemma_pop_valid(p: Seq<u8>, fa: bool, at0: bool)
    requires lang_path(p),
    ensures lang_path(pop_text(p, fa, at0)),
{
    axiom_path_consts();
    if (p_is_empty(p) && !p_is_abs(p)) || (!p_is_empty(p) && is_dotdot(last_seg(p))) {
        lemma_push_valid(p, sq2(46, 46), fa, at0);
    } else if !p_is_empty(p) {
        let fo = p_first_off(p);
        lemma_seg_start_slash(p, fo, p.len() as int);
        let cut = pop_cut(p);
        let u = p.subrange(0, cut);
        let v = p.subrange(cut, p.len() as int);
        assert(u + v =~= p);
        if cut == fo {
            if fo == 0 { assert(u =~= sq0()); } else { assert(u =~= sq1(47)); }
        } else {
            assert(v[0] == 47);
            axiom_path_split(u, v);
        }
    }
}
pub proof fn lemma_clear_valid(p: Seq<u8>)
    ensures lang_path(clear_text(p)),
{
    axiom_path_consts();
    let fo = p_first_off(p);
    if fo == 0 { assert(clear_text(p) =~= sq0()); } else { assert(clear_text(p) =~= sq1(47)); }
}
pub proof fn lemma_sym_push_valid(p: Seq<u8>, seg: Seq<u8>, fa: bool, at0: bool)
    requires lang_path(p), lang_segment(seg),
    ensures lang_path(sym_push_text(p, seg, fa, at0)),
{
    lemma_push_valid(p, seg, fa, at0);
    lemma_pop_valid(p, fa, at0);
}
/// every '/'-separated piece of a valid path is a valid path
pub open spec fn all_paths(l: Seq<Seq<u8>>) -> bool { forall|i: int| 0 <= i < l.len() ==> lang_path(#[trigger] l[i]) }
proof fn lemma_split_valid(p: Seq<u8>, i: int)
    requires 0 <= i <= p.len(), lang_path(p.subrange(i, p.len() as int)),
    ensures all_paths(split_from(p, i)),
    decreases p.len() - i
{
    lemma_first_of_bounds(p, i, C_SLASH);
    let e = first_of(p, i, C_SLASH);
    let n = p.len() as int;
    if e >= n {
        assert(split_from(p, i) =~= seq![p.subrange(i, n)]);
    } else {
        let s0 = p.subrange(i, e);
        let v = p.subrange(e, n);
        assert(s0 + v =~= p.subrange(i, n));
        assert(v[0] == 47);
        axiom_path_split(s0, v);
        let r = p.subrange(e + 1, n);
        assert(v =~= sq1(47) + r);
        axiom_path_strip_slash(r);
        lemma_split_valid(p, e + 1);
        let rest = split_from(p, e + 1);
        let all = split_from(p, i);
        assert(all =~= seq![s0] + rest);
        assert forall|k: int| 0 <= k < all.len() implies lang_path(#[trigger] all[k]) by { if k > 0 { assert(all[k] == rest[k - 1]); } }
    }
}
proof fn lemma_segs_valid(p: Seq<u8>)
    requires lang_path(p),
    ensures all_paths(segs(p)),
{
    if !p_is_empty(p) {
        let fo = p_first_off(p);
        if fo == 1 { assert(p =~= sq1(47) + p.subrange(1, p.len() as int)); axiom_path_strip_slash(p.subrange(1, p.len() as int)); }
        else { assert(p.subrange(0, p.len() as int) =~= p); }
        lemma_split_valid(p, fo);
    }
}
proof fn lemma_norm_fold_valid(l: Seq<Seq<u8>>, relative: bool)
    requires all_paths(l),
    ensures all_paths(norm_fold(l, relative)),
    decreases l.len()
{
    if l.len() > 0 {
        lemma_norm_fold_valid(l.drop_last(), relative);
        let st = norm_fold(l.drop_last(), relative);
        let r = norm_step(st, l.last(), relative);
        assert(lang_path(l.last()));
        assert forall|i: int| 0 <= i < r.len() implies lang_path(#[trigger] r[i]) by {
            if i < st.len() { assert(r[i] == st[i]); }
        }
    }
}
proof fn lemma_join_valid(l: Seq<Seq<u8>>)
    requires all_paths(l),
    ensures lang_path(join_slash(l)),
    decreases l.len()
{
    axiom_path_consts();
    if l.len() > 1 {
        lemma_join_valid(l.drop_last());
        assert(lang_path(l.last()));
        axiom_path_concat(join_slash(l.drop_last()), sq1(47));
        axiom_path_concat(join_slash(l.drop_last()) + sq1(47), l.last());
    } else if l.len() == 1 {
        assert(lang_path(l[0]));
    }
}
pub proof fn lemma_normalize_valid(p: Seq<u8>, fa: bool, at0: bool)
    requires lang_path(p),
    ensures lang_path(normalize_text(p, fa, at0)),
{
    axiom_path_consts();
    lemma_segs_valid(p);
    lemma_norm_fold_valid(segs(p), !p_is_abs(p));
    let n = norm_segs(p);
    lemma_join_valid(n);
    let pre = p.subrange(0, p_first_off(p));
    if p_first_off(p) == 0 { assert(pre =~= sq0()); } else { assert(pre =~= sq1(47)); }
    let sh = if norm_shield(n, p_is_abs(p), fa, at0) { sq2(46, 47) } else { sq0() };
    axiom_path_concat(pre, sh);
    axiom_path_concat(pre + sh, join_slash(n));
}

/// C04 for the in-place path edits of a URI reference: the new text is in the URI-reference language when the old one was
/// and the new path text is a valid path that fits its context (emb_fits is what every path edit is proved to re-establish)
pub proof fn lemma_path_edit_valid(o: Seq<u8>, np: Seq<u8>)
    requires lang_uriref(o), emb_fits(np, x_has_auth(o), x_auth_end(o) == 0), lang_path(np),
    ensures lang_uriref(o.subrange(0, x_auth_end(o)) + np + o.subrange(x_path_end(o), o.len() as int)),
{
    axiom_uriref_facts(o);
    lemma_uriref_components(o);
    lemma_x_layout(o);
    lemma_path_edit_ref(o, np);
    let n = o.subrange(0, x_auth_end(o)) + np + o.subrange(x_path_end(o), o.len() as int);
    lemma_set_post_valid(o, n, r_scheme(o), r_auth(o), np, r_query(o), r_frag(o));
}

/// the path of a reference fits its own context
proof fn lemma_own_path_fits(o: Seq<u8>)
    requires ref_shape(o),
    ensures emb_fits(r_path(o), x_has_auth(o), x_auth_end(o) == 0), x_has_auth(o) ==> x_auth_end(o) > 0,
{
    reveal(path_fits); reveal(emb_fits);
    lemma_ref_pieces(o);
    lemma_x_layout(o);
    lemma_x_parts_is_rfc(o);
    lemma_first_of_bounds(o, 0, C_CSQF);
    let p = r_path(o);
    if x_auth_end(o) == 0 && !x_has_auth(o) {
        // no scheme, no authority: path_fits(None, None, p) gives the first-segment condition
        assert(!x_has_sch(o));
        assert(r_scheme(o) is None && r_auth(o) is None);
    }
}
/// the text of a reference after its path has been replaced
pub open spec fn with_path(o: Seq<u8>, np: Seq<u8>) -> Seq<u8> { o.subrange(0, x_auth_end(o)) + np + o.subrange(x_path_end(o), o.len() as int) }

/// C04, character level, for every edit the path handle offers on a URI reference: the resulting text is in the
/// URI-reference language. The path texts are exactly the postconditions PathMutImpl::{push, pop, clear, symbolic_push,
/// normalize} are proved to produce (C10 / C09), in the context (fa, at0) path_mut() is proved to create the handle with.
pub proof fn lemma_ref_path_ops_valid(o: Seq<u8>, seg: Seq<u8>)
    requires lang_uriref(o), lang_segment(seg), seg_shape(seg),
    ensures ({
        let fa = x_has_auth(o); let at0 = x_auth_end(o) == 0; let p = r_path(o);
        &&& lang_uriref(with_path(o, push_text(p, seg, fa, at0)))
        &&& lang_uriref(with_path(o, pop_text(p, fa, at0)))
        &&& lang_uriref(with_path(o, clear_text(p)))
        &&& lang_uriref(with_path(o, sym_push_text(p, seg, fa, at0)))
        &&& lang_uriref(with_path(o, normalize_text(p, fa, at0)))
    }),
{
    let fa = x_has_auth(o); let at0 = x_auth_end(o) == 0; let p = r_path(o);
    axiom_uriref_facts(o);
    lemma_uriref_components(o);
    lemma_own_path_fits(o);
    lemma_push_fits(p, seg, fa, at0); lemma_push_valid(p, seg, fa, at0); lemma_path_edit_valid(o, push_text(p, seg, fa, at0));
    lemma_pop_fits(p, fa, at0); lemma_pop_valid(p, fa, at0); lemma_path_edit_valid(o, pop_text(p, fa, at0));
    lemma_clear_fits(p, fa, at0); lemma_clear_valid(p); lemma_path_edit_valid(o, clear_text(p));
    lemma_sym_push_fits(p, seg, fa, at0); lemma_sym_push_valid(p, seg, fa, at0); lemma_path_edit_valid(o, sym_push_text(p, seg, fa, at0));
    lemma_normalize_fits(p, fa, at0); lemma_normalize_valid(p, fa, at0); lemma_path_edit_valid(o, normalize_text(p, fa, at0));
}

// ---- resolution (C06 / C04): the resolved text is a valid URI ----
/// certificate comp_uri_path_algebra::comp_slashfree_path_is_segment
#[verifier::external_body]
pub proof fn axiom_slashfree_path_is_segment(x: Seq<u8>)
    requires lang_path(x), no_slash(x),
    ensures lang_segment(x),
{}
pub open spec fn all_segments(l: Seq<Seq<u8>>) -> bool { forall|i: int| 0 <= i < l.len() ==> lang_segment(#[trigger] l[i]) && seg_shape(l[i]) }
/// the pieces of a valid path are valid segments
proof fn lemma_segs_are_segments(p: Seq<u8>)
    requires lang_path(p), path_shape(p),
    ensures all_segments(segs(p)),
{
    lemma_segs_valid(p);
    lemma_segs_shape(p);
    let l = segs(p);
    assert forall|i: int| 0 <= i < l.len() implies lang_segment(#[trigger] l[i]) && seg_shape(l[i]) by {
        assert(lang_path(l[i])); assert(seg_shape(l[i]));
        assert(no_slash(l[i])) by { assert forall|j: int| 0 <= j < l[i].len() implies #[trigger] l[i][j] != 47 by { assert(!cls(C_SQF, l[i][j])); } }
        axiom_slashfree_path_is_segment(l[i]);
    }
}
proof fn lemma_sym_fold_valid(p: Seq<u8>, l: Seq<Seq<u8>>, fa: bool, at0: bool)
    requires lang_path(p), all_segments(l),
    ensures lang_path(sym_fold(p, l, fa, at0).0),
    decreases l.len()
{
    if l.len() > 0 {
        assert forall|i: int| 0 <= i < l.drop_last().len() implies lang_segment(#[trigger] l.drop_last()[i]) && seg_shape(l.drop_last()[i]) by { assert(l.drop_last()[i] == l[i]); }
        lemma_sym_fold_valid(p, l.drop_last(), fa, at0);
        assert(lang_segment(l.last()));
        lemma_sym_push_valid(sym_fold(p, l.drop_last(), fa, at0).0, l.last(), fa, at0);
    }
}
proof fn lemma_sym_append_valid(p: Seq<u8>, l: Seq<Seq<u8>>, fa: bool, at0: bool)
    requires lang_path(p), all_segments(l),
    ensures lang_path(sym_append_text(p, l, fa, at0)),
{
    axiom_path_consts();
    lemma_sym_fold_valid(p, l, fa, at0);
    lemma_push_valid(sym_fold(p, l, fa, at0).0, sq0(), fa, at0);
}
proof fn lemma_fit_path_valid(sch: Option<Seq<u8>>, au: Option<Seq<u8>>, p: Seq<u8>)
    requires lang_path(p),
    ensures lang_path(fit_path(sch, au, p)),
{
    axiom_path_prefix(p);
}
proof fn lemma_rds_valid(p: Seq<u8>, fa: bool, at0: bool)
    requires lang_path(p),
    ensures lang_path(rds_text(p, fa, at0)),
{
    axiom_path_consts();
    lemma_normalize_valid(p, fa, at0);
    lemma_push_valid(normalize_text(p, fa, at0), sq0(), fa, at0);
}
proof fn lemma_dir_end_slash(p: Seq<u8>, e: int)
    requires 0 <= e <= p.len(),
    ensures 0 <= seg_start_of(p, 0, e) <= e, seg_start_of(p, 0, e) > 0 ==> p[seg_start_of(p, 0, e) - 1] == 47,
    decreases e
{
    if !(e <= 0) && p[e - 1] != 47 { lemma_dir_end_slash(p, e - 1); }
}
proof fn lemma_parent_valid(p: Seq<u8>)
    requires lang_path(p),
    ensures lang_path(parent_text(p)),
{
    axiom_path_consts();
    let d = dir_end(p);
    lemma_dir_end_slash(p, p.len() as int);
    if p_is_empty(p) || d == 0 { }
    else if d == 1 { }
    else if d == 2 && p[0] == 47 {
        axiom_path_concat(sq1(47), sq2(46, 47));
        assert(sq3(47, 46, 47) =~= sq1(47) + sq2(46, 47));
    } else {
        let u = p.subrange(0, d - 1);
        let v = p.subrange(d - 1, p.len() as int);
        assert(u + v =~= p);
        assert(v[0] == 47);
        axiom_path_split(u, v);
    }
}
/// C06 / C04: the text in-place resolution leaves (its proved postcondition res_select) is a valid URI reference with a
/// scheme, i.e. a valid URI, whenever the reference and the base were valid
pub proof fn lemma_resolve_valid(r: Seq<u8>, b: Seq<u8>, n: Seq<u8>)
    requires lang_uriref(r), lang_uri(b), res_select(r, b, n),
    ensures lang_uriref(n), lang_uri(n),
{
    axiom_uriref_facts(r);
    axiom_uri_facts(b);
    lemma_uriref_components(r);
    lemma_uriref_components(b);
    lemma_ref_pieces(r); lemma_ref_pieces(b);
    reveal(path_fits);
    let pr = r_path(r); let pb = r_path(b);
    lemma_rds_valid(pr, x_has_auth(r), false);
    lemma_rds_valid(pr, true, false);
    lemma_rds_valid(pr, x_has_auth(b), false);
    if !x_has_sch(r) && !x_has_auth(r) && pr.len() > 0 && pr[0] != 47 {
        let fa = x_has_auth(b);
        let sch = r_scheme(b);
        axiom_path_prefix(pr);
        axiom_path_consts();
        let rp = if fa { make_abs(pr) } else { pr };
        assert(path_shape(rp)) by { assert(path_shape(pr)); if fa { assert forall|j: int| 0 <= j < rp.len() implies !cls(C_QF, #[trigger] rp[j]) by { if j > 0 { assert(rp[j] == pr[j - 1]); } } } }
        lemma_segs_are_segments(rp);
        lemma_fit_path_valid(sch, r_auth(b), sq1(47));
        lemma_parent_valid(pb);
        lemma_fit_path_valid(sch, r_auth(b), parent_text(pb));
        lemma_normalize_valid(fit_path(sch, r_auth(b), parent_text(pb)), fa, false);
        let dir = if fa && p_is_empty(pb) { fit_path(sch, r_auth(b), sq1(47)) } else { normalize_text(fit_path(sch, r_auth(b), parent_text(pb)), fa, false) };
        lemma_sym_append_valid(dir, segs(rp), fa, false);
        lemma_fit_path_valid(sch, r_auth(b), sym_append_text(dir, segs(rp), fa, false));
    }
    assert(lang_path(r_path(n)));
    lemma_uriref_compose(n);
    axiom_uriref_facts(n);
}

// ---- C16: the base of a URI is itself a valid URI ----
/// certificate comp_uri_path_algebra::comp_path_split_after_slash
#[verifier::external_body]
pub proof fn axiom_path_split_after_slash(u: Seq<u8>, v: Seq<u8>)
    requires lang_path(u + v), u.len() > 0, u[u.len() - 1] == 47,
    ensures lang_path(u), lang_path(v),
{}
/// the directory part of a path that fits its context fits it too
proof fn lemma_dir_fits(sch: Option<Seq<u8>>, au: Option<Seq<u8>>, p: Seq<u8>)
    requires path_fits(sch, au, p),
    ensures path_fits(sch, au, p.subrange(0, dir_end(p))), 0 <= dir_end(p) <= p.len(), dir_end(p) > 0 ==> p[dir_end(p) - 1] == 47,
{
    reveal(path_fits);
    lemma_dir_end_slash(p, p.len() as int);
    let d = dir_end(p);
    let r = p.subrange(0, d);
    assert(forall|j: int| 0 <= j < r.len() ==> #[trigger] r[j] == p[j]);
    if sch is None && au is None {
        // the first of : / in the directory is the first of : / in the path when the directory is not empty
        lemma_first_of_bounds(p, 0, C_CSQF);
        lemma_first_of_bounds(r, 0, C_CSQF);
        let k = first_of(r, 0, C_CSQF);
        if k < r.len() && r[k] == 58 {
            assert forall|j: int| 0 <= j < k implies !cls(C_CSQF, #[trigger] p[j]) by { assert(!cls(C_CSQF, r[j])); }
            lemma_first_of_is(p, 0, C_CSQF, k);
        }
    }
}
/// the text RiRefImpl::base returns (its proved postcondition)
pub open spec fn base_text(s: Seq<u8>) -> Seq<u8> { s.subrange(0, x_auth_end(s) + dir_end(r_path(s))) }
/// C16: "the base ... is itself a valid value of the same kind without query or fragment"
pub proof fn lemma_base_valid(s: Seq<u8>)
    requires lang_uri(s),
    ensures lang_uri(base_text(s)), r_query(base_text(s)) is None, r_frag(base_text(s)) is None,
{
    axiom_uri_facts(s);
    lemma_uriref_components(s);
    lemma_ref_pieces(s);
    lemma_x_layout(s);
    let p = r_path(s);
    lemma_dir_fits(r_scheme(s), r_auth(s), p);
    let d = dir_end(p);
    let dir = p.subrange(0, d);
    let last = p.subrange(d, p.len() as int);
    assert(dir + last =~= p);
    axiom_path_consts();
    if d > 0 { axiom_path_split_after_slash(dir, last); } else { assert(dir =~= sq0()); }
    let b = base_text(s);
    assert(b =~= opt_prefix(r_scheme(s), 58) + opt_auth(r_auth(s)) + dir + opt_suffix(63, None) + opt_suffix(35, None)) by {
        assert(s.subrange(0, x_auth_end(s)) =~= s.subrange(0, x_hier(s)) + s.subrange(x_hier(s), x_auth_end(s)));
        assert(b =~= s.subrange(0, x_auth_end(s)) + s.subrange(x_auth_end(s), x_auth_end(s) + d));
        assert(s.subrange(x_auth_end(s), x_auth_end(s) + d) =~= dir);
    }
    lemma_ref_compose(r_scheme(s), r_auth(s), dir, None, None);
    assert(b =~= ref_compose(r_scheme(s), r_auth(s), dir, None, None));
    lemma_uriref_compose(b);
    axiom_uriref_facts(b);
}
} // verus!
