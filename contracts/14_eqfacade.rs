// C07 / C08: facade functions the comparison twins call that are NOT proved: wrappers that slice a `str` by byte ranges
// (IRI family parts()), wrapper iterators with a private field, Segment::as_pct_str (its delegate has the failing C19
// precondition), generated accessors of the owned types. ASSUMED to return what the delegate - proved in common/
// (C02, C03, C09, C12) - returns. The pure delegations `fn m(&self) { Trait::m(self) }` and uri::Authority::parts are
// PROVED instead (contracts/deleg.vspec, R26). The bounded Kani facade harnesses of C02 / C03 exercise the parts() wrappers.
verus! {
pub assume_specification [crate::uri::Segment::as_pct_str] (s: &crate::uri::Segment) -> (r: &pct_str::PctStr)
    ensures pct_text(r) == bytes_of(s);
pub assume_specification [crate::iri::Segment::as_pct_str] (s: &crate::iri::Segment) -> (r: &pct_str::PctStr)
    ensures pct_text(r) == bytes_of(s);

#[verifier::external_type_specification]
pub struct ExIriRefParts<'a>(crate::iri::IriRefParts<'a>);
#[verifier::external_type_specification]
pub struct ExIriParts<'a>(crate::iri::IriParts<'a>);
#[verifier::external_type_specification]
pub struct ExIriAuthorityParts<'a>(crate::iri::AuthorityParts<'a>);

// generated borrow accessors / Deref of the owned types (return the same text). TRUSTED (dependency output)
pub assume_specification [crate::uri::UriBuf::as_uri] (s: &crate::uri::UriBuf) -> (r: &crate::uri::Uri)
    ensures bytes_of(r) == bytes_of(s);
pub assume_specification [crate::uri::UriRefBuf::as_uri_ref] (s: &crate::uri::UriRefBuf) -> (r: &crate::uri::UriRef)
    ensures bytes_of(r) == bytes_of(s);
pub assume_specification [crate::iri::IriBuf::as_iri] (s: &crate::iri::IriBuf) -> (r: &crate::iri::Iri)
    ensures bytes_of(r) == bytes_of(s);
pub assume_specification [crate::iri::IriRefBuf::as_iri_ref] (s: &crate::iri::IriRefBuf) -> (r: &crate::iri::IriRef)
    ensures bytes_of(r) == bytes_of(s);
pub assume_specification [<crate::uri::UriBuf as std::ops::Deref>::deref] (s: &crate::uri::UriBuf) -> (r: &<crate::uri::UriBuf as std::ops::Deref>::Target)
    ensures bytes_of(r) == bytes_of(s);
pub assume_specification [<crate::iri::IriBuf as std::ops::Deref>::deref] (s: &crate::iri::IriBuf) -> (r: &<crate::iri::IriBuf as std::ops::Deref>::Target)
    ensures bytes_of(r) == bytes_of(s);

pub assume_specification [crate::iri::IriBuf::as_str] (s: &crate::iri::IriBuf) -> (r: &str)
    ensures bytes_of(r) == bytes_of(s);
pub assume_specification [crate::iri::IriRefBuf::as_str] (s: &crate::iri::IriRefBuf) -> (r: &str)
    ensures bytes_of(r) == bytes_of(s);
pub assume_specification [crate::iri::IriBuf::as_bytes] (s: &crate::iri::IriBuf) -> (r: &[u8])
    ensures r@ == bytes_of(s);
pub assume_specification [crate::iri::IriRefBuf::as_bytes] (s: &crate::iri::IriRefBuf) -> (r: &[u8])
    ensures r@ == bytes_of(s);
pub assume_specification [crate::uri::UriBuf::as_bytes] (s: &crate::uri::UriBuf) -> (r: &[u8])
    ensures r@ == bytes_of(s);
pub assume_specification [crate::uri::UriRefBuf::as_bytes] (s: &crate::uri::UriRefBuf) -> (r: &[u8])
    ensures r@ == bytes_of(s);

// Authority::parts (both families): typed sub-slices at the ranges of AuthorityImpl::parts (proved, C03)
pub assume_specification [crate::iri::Authority::parts] (s: &crate::iri::Authority) -> (r: crate::iri::AuthorityParts<'_>)
    ensures auth_shape(bytes_of(s), 0) ==> opt_text(r.user_info) == au_ui(bytes_of(s)) && bytes_of(r.host) == au_host(bytes_of(s)) && opt_text(r.port) == au_port(bytes_of(s));
// IriRef::parts / Iri::parts slice a `str` by byte ranges (no Verus model); their URI twins ARE proved (facade.vspec)
pub assume_specification [crate::iri::IriRef::parts] (s: &crate::iri::IriRef) -> (r: crate::iri::IriRefParts<'_>)
    ensures ref_shape(bytes_of(s)) ==> opt_text(r.scheme) == r_scheme(bytes_of(s)) && opt_text(r.authority) == r_auth(bytes_of(s)) && bytes_of(r.path) == r_path(bytes_of(s))
        && opt_text(r.query) == r_query(bytes_of(s)) && opt_text(r.fragment) == r_frag(bytes_of(s));
pub assume_specification [crate::iri::Iri::parts] (s: &crate::iri::Iri) -> (r: crate::iri::IriParts<'_>)
    ensures ref_shape(bytes_of(s)) && x_has_sch(bytes_of(s)) ==> Some(bytes_of(r.scheme)) == r_scheme(bytes_of(s)) && opt_text(r.authority) == r_auth(bytes_of(s)) && bytes_of(r.path) == r_path(bytes_of(s))
        && opt_text(r.query) == r_query(bytes_of(s)) && opt_text(r.fragment) == r_frag(bytes_of(s));

// accessor delegations (RiRefImpl / RiImpl / AuthorityImpl / PathImpl methods proved for C02, C03, C12): stated so that a comparison
// written with the accessors instead of parts() is decided rather than left undecided

// Path::is_absolute / segments / normalized_segments and the facade iterators wrapping SegmentsImpl / NormalizedSegmentsImpl
// (both proved in common/: C12, C09). One ghost view for every iterator type: the texts of the items still to come.
// NormalizedSegments (the one the comparison code uses): transparent (R27), `Path::normalized_segments` and `next` are PROVED
// on twins (contracts/deleg.vspec); Segments (no consumer in the comparison code): contracts assumed.
#[verifier::external_type_specification]
pub struct ExUriNormalizedSegments<'a>(crate::uri::NormalizedSegments<'a>);
#[verifier::external_type_specification]
pub struct ExIriNormalizedSegments<'a>(crate::iri::NormalizedSegments<'a>);
#[verifier::external_type_specification]
#[verifier::external_body]
pub struct ExUriSegments<'a>(crate::uri::Segments<'a>);
#[verifier::external_type_specification]
#[verifier::external_body]
pub struct ExIriSegments<'a>(crate::iri::Segments<'a>);
/// texts of the items an iterator still has to yield (uninterpreted; pinned by the contracts of the constructors and of next)
pub uninterp spec fn it_texts<I>(it: &I) -> Seq<Seq<u8>>;
pub assume_specification<'a> [crate::uri::Path::segments] (p: &'a crate::uri::Path) -> (r: crate::uri::Segments<'a>)
    ensures path_shape(bytes_of(p)) ==> it_texts(&r) == segs(bytes_of(p));
pub assume_specification<'a> [<crate::uri::Segments<'a> as Iterator>::next] (it: &mut crate::uri::Segments<'a>) -> (r: Option<<crate::uri::Segments<'a> as Iterator>::Item>)
    ensures
        it_texts(old(it)).len() > 0 ==> r is Some && bytes_of(r.unwrap()) == it_texts(old(it))[0] && it_texts(final(it)) == it_texts(old(it)).drop_first(),
        it_texts(old(it)).len() == 0 ==> r is None && it_texts(final(it)) == it_texts(old(it));
pub assume_specification<'a> [crate::iri::Path::segments] (p: &'a crate::iri::Path) -> (r: crate::iri::Segments<'a>)
    ensures path_shape(bytes_of(p)) ==> it_texts(&r) == segs(bytes_of(p));
pub assume_specification<'a> [<crate::iri::Segments<'a> as Iterator>::next] (it: &mut crate::iri::Segments<'a>) -> (r: Option<<crate::iri::Segments<'a> as Iterator>::Item>)
    ensures
        it_texts(old(it)).len() > 0 ==> r is Some && bytes_of(r.unwrap()) == it_texts(old(it))[0] && it_texts(final(it)) == it_texts(old(it)).drop_first(),
        it_texts(old(it)).len() == 0 ==> r is None && it_texts(final(it)) == it_texts(old(it));
// std: ExactSizeIterator::len (a PROVIDED trait method: Verus accepts no assume_specification for it). R24: in the twins
// `it.len()` on an exact-size iterator is replaced by a call of this wrapper, whose body is that call.
#[verifier::external_body]
pub fn exact_len<I: ExactSizeIterator>(it: &I) -> (r: usize)
    ensures r == it_texts(it).len(),
{ it.len() }
} // verus!
