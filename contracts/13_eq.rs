// C07 / C08: the documented equivalence of values, as spec functions over their texts, and the (assumed) meaning of the
// comparison code that is generated or lives in dependencies: derive(PartialEq/Ord/Hash) on the *Parts structs and on
// Scheme/Port (newtypes over [u8]), pct_str::PctStr. Everything hand-written in uri/ and iri/ is proved against these
// on facade twins (contracts/eq.vspec).
#[allow(unused_imports)] pub use vstd::std_specs::cmp::{PartialEqSpec, PartialOrdSpec, OrdSpec};
verus! {

// ---- the equivalence of the property statement, per type, over texts ----
/// scheme and port: literal comparison
pub open spec fn eqv_Scheme(a: Seq<u8>, b: Seq<u8>) -> bool { a == b }
pub open spec fn eqv_Port(a: Seq<u8>, b: Seq<u8>) -> bool { a == b }
/// user info, host, segment, query, fragment: compared after percent-decoding
pub open spec fn eqv_UserInfo(a: Seq<u8>, b: Seq<u8>) -> bool { pct_eq(a, b) }
pub open spec fn eqv_Host(a: Seq<u8>, b: Seq<u8>) -> bool { pct_eq(a, b) }
pub open spec fn eqv_Segment(a: Seq<u8>, b: Seq<u8>) -> bool { pct_eq(a, b) }
pub open spec fn eqv_Query(a: Seq<u8>, b: Seq<u8>) -> bool { pct_eq(a, b) }
pub open spec fn eqv_Fragment(a: Seq<u8>, b: Seq<u8>) -> bool { pct_eq(a, b) }

pub open spec fn oeqv_Scheme(a: Option<Seq<u8>>, b: Option<Seq<u8>>) -> bool {
    match (a, b) { (None, None) => true, (Some(x), Some(y)) => eqv_Scheme(x, y), _ => false }
}
pub open spec fn oeqv_Port(a: Option<Seq<u8>>, b: Option<Seq<u8>>) -> bool {
    match (a, b) { (None, None) => true, (Some(x), Some(y)) => eqv_Port(x, y), _ => false }
}
pub open spec fn oeqv_UserInfo(a: Option<Seq<u8>>, b: Option<Seq<u8>>) -> bool {
    match (a, b) { (None, None) => true, (Some(x), Some(y)) => eqv_UserInfo(x, y), _ => false }
}
pub open spec fn oeqv_Query(a: Option<Seq<u8>>, b: Option<Seq<u8>>) -> bool {
    match (a, b) { (None, None) => true, (Some(x), Some(y)) => eqv_Query(x, y), _ => false }
}
pub open spec fn oeqv_Fragment(a: Option<Seq<u8>>, b: Option<Seq<u8>>) -> bool {
    match (a, b) { (None, None) => true, (Some(x), Some(y)) => eqv_Fragment(x, y), _ => false }
}

/// authorities: equal user info, host and port (RFC 3986 3.2 decomposition: au_ui / au_host / au_port of contracts/05_compose.rs = the ranges of rfc_auth)
pub open spec fn eqv_Authority(a: Seq<u8>, b: Seq<u8>) -> bool {
    oeqv_UserInfo(au_ui(a), au_ui(b)) && eqv_Host(au_host(a), au_host(b)) && oeqv_Port(au_port(a), au_port(b))
}
pub open spec fn oeqv_Authority(a: Option<Seq<u8>>, b: Option<Seq<u8>>) -> bool {
    match (a, b) { (None, None) => true, (Some(x), Some(y)) => eqv_Authority(x, y), _ => false }
}
/// segment lists: same length, pairwise equal after percent-decoding
pub open spec fn segl_eqv(a: Seq<Seq<u8>>, b: Seq<Seq<u8>>) -> bool {
    a.len() == b.len() && forall|i: int| 0 <= i < a.len() ==> eqv_Segment(#[trigger] a[i], b[i])
}
/// paths: both absolute or both relative, same segment sequence once dot segments are removed (RFC 3986 5.2.4 fold,
/// Errata 4547: norm_segs of contracts/09_norm.rs, the specification NormalizedSegmentsImpl::new is proved against)
pub open spec fn eqv_Path(p: Seq<u8>, q: Seq<u8>) -> bool {
    p_is_abs(p) == p_is_abs(q) && segl_eqv(norm_segs(p), norm_segs(q))
}
/// references: RFC 3986 App. B decomposition (r_* of contracts/06_refcompose.rs), component by component
pub open spec fn eqv_Ref(s: Seq<u8>, t: Seq<u8>) -> bool {
    oeqv_Scheme(r_scheme(s), r_scheme(t)) && oeqv_Authority(r_auth(s), r_auth(t)) && eqv_Path(r_path(s), r_path(t))
        && oeqv_Query(r_query(s), r_query(t)) && oeqv_Fragment(r_frag(s), r_frag(t))
}

// ---- consequences the property states: an equivalence relation ----
pub proof fn lemma_segl_eqv_equiv(a: Seq<Seq<u8>>, b: Seq<Seq<u8>>, c: Seq<Seq<u8>>)
    ensures segl_eqv(a, a), segl_eqv(a, b) ==> segl_eqv(b, a), segl_eqv(a, b) && segl_eqv(b, c) ==> segl_eqv(a, c),
{
    if segl_eqv(a, b) && segl_eqv(b, c) {
        assert forall|i: int| 0 <= i < a.len() implies eqv_Segment(#[trigger] a[i], c[i]) by { assert(eqv_Segment(a[i], b[i])); assert(eqv_Segment(b[i], c[i])); }
    }
    if segl_eqv(a, b) {
        assert forall|i: int| 0 <= i < b.len() implies eqv_Segment(#[trigger] b[i], a[i]) by { assert(eqv_Segment(a[i], b[i])); }
    }
}
/// the equivalence of references (hence of URIs, which are references with a scheme) is reflexive, symmetric and transitive
pub proof fn lemma_eqv_ref_equiv(s: Seq<u8>, t: Seq<u8>, u: Seq<u8>)
    ensures eqv_Ref(s, s), eqv_Ref(s, t) ==> eqv_Ref(t, s), eqv_Ref(s, t) && eqv_Ref(t, u) ==> eqv_Ref(s, u),
{
    lemma_segl_eqv_equiv(norm_segs(r_path(s)), norm_segs(r_path(t)), norm_segs(r_path(u)));
}
pub proof fn lemma_eqv_path_equiv(s: Seq<u8>, t: Seq<u8>, u: Seq<u8>)
    ensures eqv_Path(s, s), eqv_Path(s, t) ==> eqv_Path(t, s), eqv_Path(s, t) && eqv_Path(t, u) ==> eqv_Path(s, u),
{
    lemma_segl_eqv_equiv(norm_segs(s), norm_segs(t), norm_segs(u));
}
pub proof fn lemma_eqv_auth_equiv(s: Seq<u8>, t: Seq<u8>, u: Seq<u8>)
    ensures eqv_Authority(s, s), eqv_Authority(s, t) ==> eqv_Authority(t, s), eqv_Authority(s, t) && eqv_Authority(t, u) ==> eqv_Authority(s, u),
{
}

/// what a comparison returns on values that violate their type invariant (never constructed by safe code): unspecified
pub uninterp spec fn eq_unspec(a: Seq<u8>, b: Seq<u8>) -> bool;

// ---- generated / dependency comparison code: ASSUMED meaning ----
// derive(PartialEq) on `struct Scheme([u8])` / `struct Port([u8])`: equality of the byte slices
impl vstd::std_specs::cmp::PartialEqSpecImpl for crate::uri::Scheme {
    open spec fn obeys_eq_spec() -> bool { true }
    open spec fn eq_spec(&self, other: &crate::uri::Scheme) -> bool { eqv_Scheme(bytes_of(self), bytes_of(other)) }
}
impl vstd::std_specs::cmp::PartialEqSpecImpl for crate::uri::Port {
    open spec fn obeys_eq_spec() -> bool { true }
    open spec fn eq_spec(&self, other: &crate::uri::Port) -> bool { eqv_Port(bytes_of(self), bytes_of(other)) }
}

} // verus!
