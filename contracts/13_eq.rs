// C07 / C08: the documented equivalence of values, as spec functions over their texts, and the (assumed) meaning of the
// comparison code that is generated or lives in dependencies: derive(PartialEq/Ord/Hash) on the *Parts structs and on
// Scheme/Port (newtypes over [u8]), pct_str::PctStr. Everything hand-written in uri/ and iri/ is proved against these
// on facade twins (contracts/eq.vspec).
#[allow(unused_imports)] pub use vstd::std_specs::cmp::{PartialEqSpec, PartialOrdSpec, OrdSpec};
verus! {

// ---- the equivalence of the property statement, per type, over texts ----
/// scheme and port: literal comparison
pub open spec fn eqv_Scheme(a: Seq<u8>, b: Seq<u8>) -> bool { a == b }
pub open spec fn eqv_Port(a: Seq<u8>, b: Seq<u8>) -> bool { a == b }
/// user info, host, segment, query, fragment: compared after percent-decoding
pub open spec fn eqv_UserInfo(a: Seq<u8>, b: Seq<u8>) -> bool { pct_eq(a, b) }
pub open spec fn eqv_Host(a: Seq<u8>, b: Seq<u8>) -> bool { pct_eq(a, b) }
pub open spec fn eqv_Segment(a: Seq<u8>, b: Seq<u8>) -> bool { pct_eq(a, b) }
pub open spec fn eqv_Query(a: Seq<u8>, b: Seq<u8>) -> bool { pct_eq(a, b) }
pub open spec fn eqv_Fragment(a: Seq<u8>, b: Seq<u8>) -> bool { pct_eq(a, b) }

pub open spec fn oeqv_Scheme(a: Option<Seq<u8>>, b: Option<Seq<u8>>) -> bool {
    match (a, b) { (None, None) => true, (Some(x), Some(y)) => eqv_Scheme(x, y), _ => false }
}
pub open spec fn oeqv_Port(a: Option<Seq<u8>>, b: Option<Seq<u8>>) -> bool {
    match (a, b) { (None, None) => true, (Some(x), Some(y)) => eqv_Port(x, y), _ => false }
}
pub open spec fn oeqv_UserInfo(a: Option<Seq<u8>>, b: Option<Seq<u8>>) -> bool {
    match (a, b) { (None, None) => true, (Some(x), Some(y)) => eqv_UserInfo(x, y), _ => false }
}
pub open spec fn oeqv_Query(a: Option<Seq<u8>>, b: Option<Seq<u8>>) -> bool {
    match (a, b) { (None, None) => true, (Some(x), Some(y)) => eqv_Query(x, y), _ => false }
}
pub open spec fn oeqv_Fragment(a: Option<Seq<u8>>, b: Option<Seq<u8>>) -> bool {
    match (a, b) { (None, None) => true, (Some(x), Some(y)) => eqv_Fragment(x, y), _ => false }
}

/// authorities: equal user info, host and port (RFC 3986 3.2 decomposition: au_ui / au_host / au_port of contracts/05_compose.rs = the ranges of rfc_auth)
pub open spec fn eqv_Authority(a: Seq<u8>, b: Seq<u8>) -> bool {
    oeqv_UserInfo(au_ui(a), au_ui(b)) && eqv_Host(au_host(a), au_host(b)) && oeqv_Port(au_port(a), au_port(b))
}
pub open spec fn oeqv_Authority(a: Option<Seq<u8>>, b: Option<Seq<u8>>) -> bool {
    match (a, b) { (None, None) => true, (Some(x), Some(y)) => eqv_Authority(x, y), _ => false }
}
/// segment lists: same length, pairwise equal after percent-decoding
pub open spec fn segl_eqv(a: Seq<Seq<u8>>, b: Seq<Seq<u8>>) -> bool {
    a.len() == b.len() && forall|i: int| 0 <= i < a.len() ==> eqv_Segment(#[trigger] a[i], b[i])
}
/// paths: both absolute or both relative, same segment sequence once dot segments are removed (RFC 3986 5.2.4 fold,
/// Errata 4547: norm_segs of contracts/09_norm.rs, the specification NormalizedSegmentsImpl::new is proved against)
pub open spec fn eqv_Path(p: Seq<u8>, q: Seq<u8>) -> bool {
    p_is_abs(p) == p_is_abs(q) && segl_eqv(norm_segs(p), norm_segs(q))
}
/// references: RFC 3986 App. B decomposition (r_* of contracts/06_refcompose.rs), component by component
pub open spec fn eqv_Ref(s: Seq<u8>, t: Seq<u8>) -> bool {
    oeqv_Scheme(r_scheme(s), r_scheme(t)) && oeqv_Authority(r_auth(s), r_auth(t)) && eqv_Path(r_path(s), r_path(t))
        && oeqv_Query(r_query(s), r_query(t)) && oeqv_Fragment(r_frag(s), r_frag(t))
}

// ---- consequences the property states: an equivalence relation ----
pub proof fn lemma_segl_eqv_equiv(a: Seq<Seq<u8>>, b: Seq<Seq<u8>>, c: Seq<Seq<u8>>)
    ensures segl_eqv(a, a), segl_eqv(a, b) ==> segl_eqv(b, a), segl_eqv(a, b) && segl_eqv(b, c) ==> segl_eqv(a, c),
{
    if segl_eqv(a, b) && segl_eqv(b, c) {
        assert forall|i: int| 0 <= i < a.len() implies eqv_Segment(#[trigger] a[i], c[i]) by { assert(eqv_Segment(a[i], b[i])); assert(eqv_Segment(b[i], c[i])); }
    }
    if segl_eqv(a, b) {
        assert forall|i: int| 0 <= i < b.len() implies eqv_Segment(#[trigger] b[i], a[i]) by { assert(eqv_Segment(a[i], b[i])); }
    }
}
/// the equivalence of references (hence of URIs, which are references with a scheme) is reflexive, symmetric and transitive
pub proof fn lemma_eqv_ref_equiv(s: Seq<u8>, t: Seq<u8>, u: Seq<u8>)
    ensures eqv_Ref(s, s), eqv_Ref(s, t) ==> eqv_Ref(t, s), eqv_Ref(s, t) && eqv_Ref(t, u) ==> eqv_Ref(s, u),
{
    lemma_segl_eqv_equiv(norm_segs(r_path(s)), norm_segs(r_path(t)), norm_segs(r_path(u)));
}
pub proof fn lemma_eqv_path_equiv(s: Seq<u8>, t: Seq<u8>, u: Seq<u8>)
    ensures eqv_Path(s, s), eqv_Path(s, t) ==> eqv_Path(t, s), eqv_Path(s, t) && eqv_Path(t, u) ==> eqv_Path(s, u),
{
    lemma_segl_eqv_equiv(norm_segs(s), norm_segs(t), norm_segs(u));
}
pub proof fn lemma_eqv_auth_equiv(s: Seq<u8>, t: Seq<u8>, u: Seq<u8>)
    ensures eqv_Authority(s, s), eqv_Authority(s, t) ==> eqv_Authority(t, s), eqv_Authority(s, t) && eqv_Authority(t, u) ==> eqv_Authority(s, u),
{
}

/// what a comparison returns on values that violate their type invariant (never constructed by safe code): unspecified
pub uninterp spec fn eq_unspec(a: Seq<u8>, b: Seq<u8>) -> bool;

// ---- generated / dependency comparison code: ASSUMED meaning ----
// derive(PartialEq) on `struct Scheme([u8])` / `struct Port([u8])`: equality of the byte slices
impl vstd::std_specs::cmp::PartialEqSpecImpl for crate::uri::Scheme {
    open spec fn obeys_eq_spec() -> bool { true }
    open spec fn eq_spec(&self, other: &crate::uri::Scheme) -> bool { eqv_Scheme(bytes_of(self), bytes_of(other)) }
}
impl vstd::std_specs::cmp::PartialEqSpecImpl for crate::uri::Port {
    open spec fn obeys_eq_spec() -> bool { true }
    open spec fn eq_spec(&self, other: &crate::uri::Port) -> bool { eqv_Port(bytes_of(self), bytes_of(other)) }
}

} // verus!

// =====================================================================================================================
// C08: ordering and hashing
// =====================================================================================================================
verus! {
pub open spec fn ord_then(a: std::cmp::Ordering, b: std::cmp::Ordering) -> std::cmp::Ordering { if a == std::cmp::Ordering::Equal { b } else { a } }
pub open spec fn ord_rev(a: std::cmp::Ordering) -> std::cmp::Ordering {
    match a { std::cmp::Ordering::Less => std::cmp::Ordering::Greater, std::cmp::Ordering::Greater => std::cmp::Ordering::Less, std::cmp::Ordering::Equal => std::cmp::Ordering::Equal }
}
/// lexicographic order of character sequences by code point (what PctStr::cmp computes on the decoded characters)
pub open spec fn lex_chars(a: Seq<char>, b: Seq<char>) -> std::cmp::Ordering
    decreases a.len()
{
    if a.len() == 0 { if b.len() == 0 { std::cmp::Ordering::Equal } else { std::cmp::Ordering::Less } }
    else if b.len() == 0 { std::cmp::Ordering::Greater }
    else if (a[0] as u32) < (b[0] as u32) { std::cmp::Ordering::Less }
    else if (a[0] as u32) > (b[0] as u32) { std::cmp::Ordering::Greater }
    else { lex_chars(a.drop_first(), b.drop_first()) }
}
/// lexicographic order of byte strings (Ord of [u8], which derive(Ord) on Scheme / Port delegates to)
pub open spec fn lex_bytes(a: Seq<u8>, b: Seq<u8>) -> std::cmp::Ordering
    decreases a.len()
{
    if a.len() == 0 { if b.len() == 0 { std::cmp::Ordering::Equal } else { std::cmp::Ordering::Less } }
    else if b.len() == 0 { std::cmp::Ordering::Greater }
    else if a[0] < b[0] { std::cmp::Ordering::Less }
    else if a[0] > b[0] { std::cmp::Ordering::Greater }
    else { lex_bytes(a.drop_first(), b.drop_first()) }
}
pub open spec fn pct_ord(a: Seq<u8>, b: Seq<u8>) -> std::cmp::Ordering { lex_chars(pct_chars(a), pct_chars(b)) }

pub open spec fn ordv_Scheme(a: Seq<u8>, b: Seq<u8>) -> std::cmp::Ordering { lex_bytes(a, b) }
pub open spec fn ordv_Port(a: Seq<u8>, b: Seq<u8>) -> std::cmp::Ordering { lex_bytes(a, b) }
pub open spec fn ordv_UserInfo(a: Seq<u8>, b: Seq<u8>) -> std::cmp::Ordering { pct_ord(a, b) }
pub open spec fn ordv_Host(a: Seq<u8>, b: Seq<u8>) -> std::cmp::Ordering { pct_ord(a, b) }
pub open spec fn ordv_Segment(a: Seq<u8>, b: Seq<u8>) -> std::cmp::Ordering { pct_ord(a, b) }
pub open spec fn ordv_Query(a: Seq<u8>, b: Seq<u8>) -> std::cmp::Ordering { pct_ord(a, b) }
pub open spec fn ordv_Fragment(a: Seq<u8>, b: Seq<u8>) -> std::cmp::Ordering { pct_ord(a, b) }
/// Option: None < Some (std)
pub open spec fn oord(a: Option<Seq<u8>>, b: Option<Seq<u8>>, inner: std::cmp::Ordering) -> std::cmp::Ordering {
    match (a, b) { (None, None) => std::cmp::Ordering::Equal, (None, Some(_)) => std::cmp::Ordering::Less, (Some(_), None) => std::cmp::Ordering::Greater, (Some(_), Some(_)) => inner }
}
pub open spec fn oordv_Scheme(a: Option<Seq<u8>>, b: Option<Seq<u8>>) -> std::cmp::Ordering { oord(a, b, if a is Some && b is Some { ordv_Scheme(a.unwrap(), b.unwrap()) } else { std::cmp::Ordering::Equal }) }
pub open spec fn oordv_Port(a: Option<Seq<u8>>, b: Option<Seq<u8>>) -> std::cmp::Ordering { oord(a, b, if a is Some && b is Some { ordv_Port(a.unwrap(), b.unwrap()) } else { std::cmp::Ordering::Equal }) }
pub open spec fn oordv_UserInfo(a: Option<Seq<u8>>, b: Option<Seq<u8>>) -> std::cmp::Ordering { oord(a, b, if a is Some && b is Some { ordv_UserInfo(a.unwrap(), b.unwrap()) } else { std::cmp::Ordering::Equal }) }
pub open spec fn oordv_Query(a: Option<Seq<u8>>, b: Option<Seq<u8>>) -> std::cmp::Ordering { oord(a, b, if a is Some && b is Some { ordv_Query(a.unwrap(), b.unwrap()) } else { std::cmp::Ordering::Equal }) }
pub open spec fn oordv_Fragment(a: Option<Seq<u8>>, b: Option<Seq<u8>>) -> std::cmp::Ordering { oord(a, b, if a is Some && b is Some { ordv_Fragment(a.unwrap(), b.unwrap()) } else { std::cmp::Ordering::Equal }) }
pub open spec fn ordv_Authority(a: Seq<u8>, b: Seq<u8>) -> std::cmp::Ordering {
    ord_then(oordv_UserInfo(au_ui(a), au_ui(b)), ord_then(ordv_Host(au_host(a), au_host(b)), oordv_Port(au_port(a), au_port(b))))
}
pub open spec fn oordv_Authority(a: Option<Seq<u8>>, b: Option<Seq<u8>>) -> std::cmp::Ordering { oord(a, b, if a is Some && b is Some { ordv_Authority(a.unwrap(), b.unwrap()) } else { std::cmp::Ordering::Equal }) }
/// lexicographic order of segment lists
pub open spec fn lex_segs(a: Seq<Seq<u8>>, b: Seq<Seq<u8>>) -> std::cmp::Ordering
    decreases a.len()
{
    if a.len() == 0 { if b.len() == 0 { std::cmp::Ordering::Equal } else { std::cmp::Ordering::Less } }
    else if b.len() == 0 { std::cmp::Ordering::Greater }
    else { ord_then(ordv_Segment(a[0], b[0]), lex_segs(a.drop_first(), b.drop_first())) }
}
/// paths: relative before absolute, then the normalized segment sequences lexicographically
pub open spec fn ordv_Path(p: Seq<u8>, q: Seq<u8>) -> std::cmp::Ordering {
    if p_is_abs(p) == p_is_abs(q) { lex_segs(norm_segs(p), norm_segs(q)) } else if p_is_abs(p) { std::cmp::Ordering::Greater } else { std::cmp::Ordering::Less }
}
pub open spec fn ordv_Ref(s: Seq<u8>, t: Seq<u8>) -> std::cmp::Ordering {
    ord_then(oordv_Scheme(r_scheme(s), r_scheme(t)), ord_then(oordv_Authority(r_auth(s), r_auth(t)), ord_then(ordv_Path(r_path(s), r_path(t)),
        ord_then(oordv_Query(r_query(s), r_query(t)), oordv_Fragment(r_frag(s), r_frag(t))))))
}
pub uninterp spec fn ord_unspec(a: Seq<u8>, b: Seq<u8>) -> std::cmp::Ordering;

// ---- the hasher as a ghost log of what was fed to it ----
pub enum HTok { Ch(char), Disc(bool), Flag(bool), Lit(Seq<u8>) }
/// everything written into a hasher so far (uninterpreted view of any Hasher)
pub uninterp spec fn hfed<H>(h: &H) -> Seq<HTok>;
pub open spec fn hfeed_chars(c: Seq<char>) -> Seq<HTok> { Seq::new(c.len(), |i: int| HTok::Ch(c[i])) }
pub open spec fn hfeed_pct(a: Seq<u8>) -> Seq<HTok> { hfeed_chars(pct_chars(a)) }
pub open spec fn hfeed_Scheme(a: Seq<u8>) -> Seq<HTok> { seq![HTok::Lit(a)] }
pub open spec fn hfeed_Port(a: Seq<u8>) -> Seq<HTok> { seq![HTok::Lit(a)] }
pub open spec fn hfeed_UserInfo(a: Seq<u8>) -> Seq<HTok> { hfeed_pct(a) }
pub open spec fn hfeed_Host(a: Seq<u8>) -> Seq<HTok> { hfeed_pct(a) }
pub open spec fn hfeed_Segment(a: Seq<u8>) -> Seq<HTok> { hfeed_pct(a) }
pub open spec fn hfeed_Query(a: Seq<u8>) -> Seq<HTok> { hfeed_pct(a) }
pub open spec fn hfeed_Fragment(a: Seq<u8>) -> Seq<HTok> { hfeed_pct(a) }
pub open spec fn ohf(a: Option<Seq<u8>>, inner: Seq<HTok>) -> Seq<HTok> { match a { None => seq![HTok::Disc(false)], Some(_) => seq![HTok::Disc(true)] + inner } }
pub open spec fn ohfeed_Scheme(a: Option<Seq<u8>>) -> Seq<HTok> { ohf(a, if a is Some { hfeed_Scheme(a.unwrap()) } else { Seq::empty() }) }
pub open spec fn ohfeed_Port(a: Option<Seq<u8>>) -> Seq<HTok> { ohf(a, if a is Some { hfeed_Port(a.unwrap()) } else { Seq::empty() }) }
pub open spec fn ohfeed_UserInfo(a: Option<Seq<u8>>) -> Seq<HTok> { ohf(a, if a is Some { hfeed_UserInfo(a.unwrap()) } else { Seq::empty() }) }
pub open spec fn ohfeed_Query(a: Option<Seq<u8>>) -> Seq<HTok> { ohf(a, if a is Some { hfeed_Query(a.unwrap()) } else { Seq::empty() }) }
pub open spec fn ohfeed_Fragment(a: Option<Seq<u8>>) -> Seq<HTok> { ohf(a, if a is Some { hfeed_Fragment(a.unwrap()) } else { Seq::empty() }) }
pub open spec fn hfeed_Authority(a: Seq<u8>) -> Seq<HTok> { ohfeed_UserInfo(au_ui(a)) + hfeed_Host(au_host(a)) + ohfeed_Port(au_port(a)) }
pub open spec fn ohfeed_Authority(a: Option<Seq<u8>>) -> Seq<HTok> { ohf(a, if a is Some { hfeed_Authority(a.unwrap()) } else { Seq::empty() }) }
/// the feeds of a list of segments, one after the other
pub open spec fn segs_feed(l: Seq<Seq<u8>>) -> Seq<HTok>
    decreases l.len()
{
    if l.len() == 0 { Seq::empty() } else { segs_feed(l.drop_last()) + hfeed_Segment(l.last()) }
}
pub open spec fn hfeed_Path(p: Seq<u8>) -> Seq<HTok> { seq![HTok::Flag(p_is_abs(p))] + segs_feed(norm_segs(p)) }
pub open spec fn hfeed_Ref(s: Seq<u8>) -> Seq<HTok> {
    ohfeed_Scheme(r_scheme(s)) + ohfeed_Authority(r_auth(s)) + hfeed_Path(r_path(s)) + ohfeed_Query(r_query(s)) + ohfeed_Fragment(r_frag(s))
}

// ---- dependency / std / derive: ASSUMED meaning ----
// pct_str::PctStr::cmp (lib.rs:397): compares the decoded characters pairwise with char::cmp, shorter is less
pub assume_specification [<pct_str::PctStr as Ord>::cmp] (a: &pct_str::PctStr, b: &pct_str::PctStr) -> (r: std::cmp::Ordering)
    ensures r == pct_ord(pct_text(a), pct_text(b));
// pct_str::PctStr::hash (lib.rs:423): feeds every decoded character
pub assume_specification<H: std::hash::Hasher> [<pct_str::PctStr as std::hash::Hash>::hash::<H>] (a: &pct_str::PctStr, state: &mut H)
    ensures hfed(final(state)) == hfed(old(state)) + hfeed_pct(pct_text(a));
// std: bool::hash feeds the flag
pub assume_specification<H: std::hash::Hasher> [<bool as std::hash::Hash>::hash::<H>] (a: &bool, state: &mut H)
    ensures hfed(final(state)) == hfed(old(state)) + seq![HTok::Flag(*a)];
// derive(PartialOrd, Ord) on Scheme / Port (newtypes over [u8]): the order of the byte slices
impl vstd::std_specs::cmp::PartialOrdSpecImpl for crate::uri::Scheme {
    open spec fn obeys_partial_cmp_spec() -> bool { true }
    open spec fn partial_cmp_spec(&self, other: &crate::uri::Scheme) -> Option<std::cmp::Ordering> { Some(ordv_Scheme(bytes_of(self), bytes_of(other))) }
}
impl vstd::std_specs::cmp::OrdSpecImpl for crate::uri::Scheme {
    open spec fn obeys_cmp_spec() -> bool { true }
    open spec fn cmp_spec(&self, other: &crate::uri::Scheme) -> std::cmp::Ordering { ordv_Scheme(bytes_of(self), bytes_of(other)) }
}
impl vstd::std_specs::cmp::PartialOrdSpecImpl for crate::uri::Port {
    open spec fn obeys_partial_cmp_spec() -> bool { true }
    open spec fn partial_cmp_spec(&self, other: &crate::uri::Port) -> Option<std::cmp::Ordering> { Some(ordv_Port(bytes_of(self), bytes_of(other))) }
}
impl vstd::std_specs::cmp::OrdSpecImpl for crate::uri::Port {
    open spec fn obeys_cmp_spec() -> bool { true }
    open spec fn cmp_spec(&self, other: &crate::uri::Port) -> std::cmp::Ordering { ordv_Port(bytes_of(self), bytes_of(other)) }
}
} // verus!

// ---- C08 consequences: Equal coincides with the equivalence, the order is total, equal values feed the hasher alike ----
verus! {
/// what a total preorder demands of the three outcomes ord(a,b), ord(b,c), ord(a,c)
pub open spec fn ord_trans_ok(x: std::cmp::Ordering, y: std::cmp::Ordering, z: std::cmp::Ordering) -> bool {
    (x == std::cmp::Ordering::Equal ==> z == y) && (y == std::cmp::Ordering::Equal ==> z == x) && (x == y ==> z == x)
}
pub proof fn lemma_lex_chars(a: Seq<char>, b: Seq<char>, c: Seq<char>)
    ensures
        (lex_chars(a, b) == std::cmp::Ordering::Equal) == (a == b),
        lex_chars(b, a) == ord_rev(lex_chars(a, b)),
        ord_trans_ok(lex_chars(a, b), lex_chars(b, c), lex_chars(a, c)),
    decreases a.len() + b.len()
{
    if a.len() > 0 && b.len() > 0 {
        let c1 = if c.len() > 0 { c.drop_first() } else { c };
        lemma_lex_chars(a.drop_first(), b.drop_first(), c1);
        if a[0] == b[0] && a.drop_first() == b.drop_first() {
            assert(a.len() == b.len()) by { assert(a.drop_first().len() == b.drop_first().len()); }
            assert forall|i: int| 0 <= i < a.len() implies a[i] == b[i] by { if i > 0 { assert(a[i] == a.drop_first()[i - 1]); assert(b[i] == b.drop_first()[i - 1]); } }
            assert(a =~= b);
        }
        if a == b { assert(a.drop_first() == b.drop_first()); }
        if c.len() > 0 && b[0] == c[0] { }
    } else {
        if a.len() == 0 && b.len() == 0 { assert(a =~= b); }
    }
}
pub proof fn lemma_lex_bytes(a: Seq<u8>, b: Seq<u8>, c: Seq<u8>)
    ensures
        (lex_bytes(a, b) == std::cmp::Ordering::Equal) == (a == b),
        lex_bytes(b, a) == ord_rev(lex_bytes(a, b)),
        ord_trans_ok(lex_bytes(a, b), lex_bytes(b, c), lex_bytes(a, c)),
    decreases a.len() + b.len()
{
    if a.len() > 0 && b.len() > 0 {
        let c1 = if c.len() > 0 { c.drop_first() } else { c };
        lemma_lex_bytes(a.drop_first(), b.drop_first(), c1);
        if a[0] == b[0] && a.drop_first() == b.drop_first() {
            assert(a.len() == b.len()) by { assert(a.drop_first().len() == b.drop_first().len()); }
            assert forall|i: int| 0 <= i < a.len() implies a[i] == b[i] by { if i > 0 { assert(a[i] == a.drop_first()[i - 1]); assert(b[i] == b.drop_first()[i - 1]); } }
            assert(a =~= b);
        }
        if a == b { assert(a.drop_first() == b.drop_first()); }
    } else {
        if a.len() == 0 && b.len() == 0 { assert(a =~= b); }
    }
}
pub proof fn lemma_pct_ord(a: Seq<u8>, b: Seq<u8>, c: Seq<u8>)
    ensures
        (pct_ord(a, b) == std::cmp::Ordering::Equal) == pct_eq(a, b),
        pct_ord(b, a) == ord_rev(pct_ord(a, b)),
        ord_trans_ok(pct_ord(a, b), pct_ord(b, c), pct_ord(a, c)),
{
    lemma_lex_chars(pct_chars(a), pct_chars(b), pct_chars(c));
}
pub proof fn lemma_lex_segs(a: Seq<Seq<u8>>, b: Seq<Seq<u8>>, c: Seq<Seq<u8>>)
    ensures
        (lex_segs(a, b) == std::cmp::Ordering::Equal) == segl_eqv(a, b),
        lex_segs(b, a) == ord_rev(lex_segs(a, b)),
        ord_trans_ok(lex_segs(a, b), lex_segs(b, c), lex_segs(a, c)),
    decreases a.len() + b.len()
{
    if a.len() > 0 && b.len() > 0 {
        let c1 = if c.len() > 0 { c.drop_first() } else { c };
        let c0 = if c.len() > 0 { c[0] } else { a[0] };
        lemma_lex_segs(a.drop_first(), b.drop_first(), c1);
        lemma_pct_ord(a[0], b[0], c0);
        let ta = a.drop_first(); let tb = b.drop_first();
        if segl_eqv(a, b) {
            assert forall|i: int| 0 <= i < ta.len() implies eqv_Segment(#[trigger] ta[i], tb[i]) by { assert(eqv_Segment(a[i + 1], b[i + 1])); }
            assert(eqv_Segment(a[0], b[0]));
        }
        if segl_eqv(ta, tb) && eqv_Segment(a[0], b[0]) {
            assert forall|i: int| 0 <= i < a.len() implies eqv_Segment(#[trigger] a[i], b[i]) by { if i > 0 { assert(eqv_Segment(ta[i - 1], tb[i - 1])); } }
        }
    }
}
/// the three statements for whole references (URIs / IRIs are references with a scheme)
pub proof fn lemma_ordv_ref(s: Seq<u8>, t: Seq<u8>, u: Seq<u8>)
    ensures
        (ordv_Ref(s, t) == std::cmp::Ordering::Equal) == eqv_Ref(s, t),
        ordv_Ref(t, s) == ord_rev(ordv_Ref(s, t)),
        ord_trans_ok(ordv_Ref(s, t), ordv_Ref(t, u), ordv_Ref(s, u)),
{
    let d = sq0();
    let g = |o: Option<Seq<u8>>| -> Seq<u8> { if o is Some { o.unwrap() } else { d } };
    lemma_lex_bytes(g(r_scheme(s)), g(r_scheme(t)), g(r_scheme(u)));
    lemma_ordv_auth(g(r_auth(s)), g(r_auth(t)), g(r_auth(u)));
    lemma_ordv_path(r_path(s), r_path(t), r_path(u));
    lemma_pct_ord(g(r_query(s)), g(r_query(t)), g(r_query(u)));
    lemma_pct_ord(g(r_frag(s)), g(r_frag(t)), g(r_frag(u)));
}
pub proof fn lemma_ordv_auth(s: Seq<u8>, t: Seq<u8>, u: Seq<u8>)
    ensures
        (ordv_Authority(s, t) == std::cmp::Ordering::Equal) == eqv_Authority(s, t),
        ordv_Authority(t, s) == ord_rev(ordv_Authority(s, t)),
        ord_trans_ok(ordv_Authority(s, t), ordv_Authority(t, u), ordv_Authority(s, u)),
{
    let d = sq0();
    let g = |o: Option<Seq<u8>>| -> Seq<u8> { if o is Some { o.unwrap() } else { d } };
    lemma_pct_ord(g(au_ui(s)), g(au_ui(t)), g(au_ui(u)));
    lemma_pct_ord(au_host(s), au_host(t), au_host(u));
    lemma_lex_bytes(g(au_port(s)), g(au_port(t)), g(au_port(u)));
}
pub proof fn lemma_ordv_path(s: Seq<u8>, t: Seq<u8>, u: Seq<u8>)
    ensures
        (ordv_Path(s, t) == std::cmp::Ordering::Equal) == eqv_Path(s, t),
        ordv_Path(t, s) == ord_rev(ordv_Path(s, t)),
        ord_trans_ok(ordv_Path(s, t), ordv_Path(t, u), ordv_Path(s, u)),
{
    lemma_lex_segs(norm_segs(s), norm_segs(t), norm_segs(u));
}

// hashing: equal values feed the hasher the same tokens
pub proof fn lemma_segs_feed_eqv(a: Seq<Seq<u8>>, b: Seq<Seq<u8>>)
    requires segl_eqv(a, b),
    ensures segs_feed(a) == segs_feed(b),
    decreases a.len()
{
    if a.len() > 0 {
        let ta = a.drop_last(); let tb = b.drop_last();
        assert forall|i: int| 0 <= i < ta.len() implies eqv_Segment(#[trigger] ta[i], tb[i]) by { assert(eqv_Segment(a[i], b[i])); }
        lemma_segs_feed_eqv(ta, tb);
        assert(eqv_Segment(a[a.len() - 1], b[a.len() - 1]));
    }
}
pub proof fn lemma_hash_path(p: Seq<u8>, q: Seq<u8>)
    requires eqv_Path(p, q),
    ensures hfeed_Path(p) == hfeed_Path(q),
{
    lemma_segs_feed_eqv(norm_segs(p), norm_segs(q));
}
pub proof fn lemma_hash_auth(a: Seq<u8>, b: Seq<u8>)
    requires eqv_Authority(a, b),
    ensures hfeed_Authority(a) == hfeed_Authority(b),
{
}
/// k1 == k2 (the documented equivalence) implies hash(k1) == hash(k2): every hasher is fed the same tokens - for
/// UriRef / IriRef and, because Uri / Iri hash as their reference view (proved contract of Uri::hash: hfeed_Ref of the
/// same text), for every Borrow view of a value
pub proof fn lemma_hash_ref(s: Seq<u8>, t: Seq<u8>)
    requires eqv_Ref(s, t),
    ensures hfeed_Ref(s) == hfeed_Ref(t),
{
    lemma_hash_path(r_path(s), r_path(t));
    if r_auth(s) is Some { lemma_hash_auth(r_auth(s).unwrap(), r_auth(t).unwrap()); }
}
} // verus!
