// Dot-segment normalisation (C09): the RFC 3986 5.2.4 / Errata 4547 fold over the segment sequence,
// and TRUSTED contracts of the smallvec dependency (a SmallVec behaves like a Vec).
verus! {

pub uninterp spec fn sv_view<A: smallvec::Array>(v: &smallvec::SmallVec<A>) -> Seq<A::Item>;
pub uninterp spec fn svi_view<A: smallvec::Array>(v: &smallvec::IntoIter<A>) -> Seq<A::Item>;

pub assume_specification<A: smallvec::Array> [smallvec::SmallVec::<A>::new] () -> (r: smallvec::SmallVec<A>)
    ensures sv_view(&r) == Seq::<A::Item>::empty();
pub assume_specification<A: smallvec::Array> [smallvec::SmallVec::<A>::push] (v: &mut smallvec::SmallVec<A>, x: A::Item)
    ensures sv_view(final(v)) == sv_view(old(v)).push(x);
pub assume_specification<A: smallvec::Array> [smallvec::SmallVec::<A>::pop] (v: &mut smallvec::SmallVec<A>) -> (r: Option<A::Item>)
    ensures
        sv_view(old(v)).len() > 0 ==> r == Some(sv_view(old(v)).last()) && sv_view(final(v)) == sv_view(old(v)).drop_last(),
        sv_view(old(v)).len() == 0 ==> r is None && sv_view(final(v)) == sv_view(old(v));
pub assume_specification<A: smallvec::Array> [smallvec::SmallVec::<A>::len] (v: &smallvec::SmallVec<A>) -> (r: usize)
    ensures r == sv_view(v).len();
pub assume_specification<A: smallvec::Array> [<smallvec::SmallVec<A> as core::ops::Deref>::deref] (v: &smallvec::SmallVec<A>) -> (r: &[A::Item])
    ensures r@ == sv_view(v);
pub assume_specification<A: smallvec::Array> [<smallvec::SmallVec<A> as IntoIterator>::into_iter] (v: smallvec::SmallVec<A>) -> (r: <smallvec::SmallVec<A> as IntoIterator>::IntoIter)
    ensures svi_view(&r) == sv_view(&v);

/// one step of RFC 3986 5.2.4 (remove_dot_segments) on the output stack, with Errata 4547:
/// "." is dropped; ".." removes the previous segment, is KEPT when the path is relative and
/// nothing is left to remove (or only kept ".."s), and is dropped at the root of an absolute path
pub open spec fn norm_step(st: Seq<Seq<u8>>, s: Seq<u8>, relative: bool) -> Seq<Seq<u8>> {
    if is_dot(s) { st }
    else if is_dotdot(s) {
        if (if st.len() > 0 { is_dotdot(st.last()) } else { relative }) { st.push(s) }
        else if st.len() > 0 { st.drop_last() } else { st }
    } else { st.push(s) }
}
pub open spec fn norm_fold(l: Seq<Seq<u8>>, relative: bool) -> Seq<Seq<u8>>
    decreases l.len()
{
    if l.len() == 0 { Seq::empty() } else { norm_step(norm_fold(l.drop_last(), relative), l.last(), relative) }
}
/// the normalized segment sequence of a path text
pub open spec fn norm_segs(p: Seq<u8>) -> Seq<Seq<u8>> { norm_fold(segs(p), !p_is_abs(p)) }

pub open spec fn texts<T: ?Sized>(v: Seq<&T>) -> Seq<Seq<u8>> { Seq::new(v.len(), |i: int| bytes_of(v[i])) }

} // verus!
verus! {
pub proof fn lemma_texts_push<T: ?Sized>(v: Seq<&T>, x: &T)
    ensures texts(v.push(x)) =~= texts(v).push(bytes_of(x)),
{ }
pub proof fn lemma_texts_drop<T: ?Sized>(v: Seq<&T>)
    requires v.len() > 0,
    ensures texts(v.drop_last()) =~= texts(v).drop_last(), texts(v).last() == bytes_of(v.last()),
{ }
pub proof fn lemma_norm_fold_push(l: Seq<Seq<u8>>, s: Seq<u8>, relative: bool)
    ensures norm_fold(l.push(s), relative) == norm_step(norm_fold(l, relative), s, relative),
{
    assert(l.push(s).drop_last() =~= l);
}
} // verus!

verus! {
/// verified stand-in for `b == PARENT_SEGMENT` (PARENT_SEGMENT = b"..")
pub fn is_parent_bytes(b: &[u8]) -> (r: bool)
    ensures r == is_dotdot(b@),
{
    b.len() == 2 && b[0] == 46u8 && b[1] == 46u8
}
} // verus!

verus! {
/// verified stand-in for `o == Some(PARENT_SEGMENT)`
pub fn opt_is_parent_bytes(o: Option<&[u8]>) -> (r: bool)
    ensures r == (o is Some && is_dotdot(o.unwrap()@)),
{
    match o { Some(b) => b.len() == 2 && b[0] == 46u8 && b[1] == 46u8, None => false }
}
} // verus!

verus! {
/// verified stand-ins for the consts PARENT_SEGMENT (b"..") and CURRENT_SEGMENT (b".") in expression position
pub fn parent_bytes() -> (r: &'static [u8])
    ensures r@ =~= sq2(46, 46),
{
    let a: &'static [u8; 2] = &[46u8, 46u8];
    a
}
pub fn current_bytes() -> (r: &'static [u8])
    ensures r@ =~= sq1(46),
{
    let a: &'static [u8; 1] = &[46u8];
    a
}
} // verus!
