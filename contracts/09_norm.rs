// Dot-segment normalisation (C09): the RFC 3986 5.2.4 / Errata 4547 fold over the segment sequence,
// and TRUSTED contracts of the smallvec dependency (a SmallVec behaves like a Vec).
verus! {

pub uninterp spec fn sv_view<A: smallvec::Array>(v: &smallvec::SmallVec<A>) -> Seq<A::Item>;
pub uninterp spec fn svi_view<A: smallvec::Array>(v: &smallvec::IntoIter<A>) -> Seq<A::Item>;

pub assume_specification<A: smallvec::Array> [smallvec::SmallVec::<A>::new] () -> (r: smallvec::SmallVec<A>)
    ensures sv_view(&r) == Seq::<A::Item>::empty();
pub assume_specification<A: smallvec::Array> [smallvec::SmallVec::<A>::push] (v: &mut smallvec::SmallVec<A>, x: A::Item)
    ensures sv_view(final(v)) == sv_view(old(v)).push(x);
pub assume_specification<A: smallvec::Array> [smallvec::SmallVec::<A>::pop] (v: &mut smallvec::SmallVec<A>) -> (r: Option<A::Item>)
    ensures
        sv_view(old(v)).len() > 0 ==> r == Some(sv_view(old(v)).last()) && sv_view(final(v)) == sv_view(old(v)).drop_last(),
        sv_view(old(v)).len() == 0 ==> r is None && sv_view(final(v)) == sv_view(old(v));
pub assume_specification<A: smallvec::Array> [smallvec::SmallVec::<A>::len] (v: &smallvec::SmallVec<A>) -> (r: usize)
    ensures r == sv_view(v).len();
pub assume_specification<A: smallvec::Array> [<smallvec::SmallVec<A> as core::ops::Deref>::deref] (v: &smallvec::SmallVec<A>) -> (r: &[A::Item])
    ensures r@ == sv_view(v);
pub assume_specification<A: smallvec::Array> [<smallvec::SmallVec<A> as IntoIterator>::into_iter] (v: smallvec::SmallVec<A>) -> (r: <smallvec::SmallVec<A> as IntoIterator>::IntoIter)
    ensures svi_view(&r) == sv_view(&v);

/// one step of RFC 3986 5.2.4 (remove_dot_segments) on the output stack, with Errata 4547:
/// "." is dropped; ".." removes the previous segment, is KEPT when the path is relative and
/// nothing is left to remove (or only kept ".."s), and is dropped at the root of an absolute path
pub open spec fn norm_step(st: Seq<Seq<u8>>, s: Seq<u8>, relative: bool) -> Seq<Seq<u8>> {
    if is_dot(s) { st }
    else if is_dotdot(s) {
        if (if st.len() > 0 { is_dotdot(st.last()) } else { relative }) { st.push(s) }
        else if st.len() > 0 { st.drop_last() } else { st }
    } else { st.push(s) }
}
pub open spec fn norm_fold(l: Seq<Seq<u8>>, relative: bool) -> Seq<Seq<u8>>
    decreases l.len()
{
    if l.len() == 0 { Seq::empty() } else { norm_step(norm_fold(l.drop_last(), relative), l.last(), relative) }
}
/// the normalized segment sequence of a path text
pub open spec fn norm_segs(p: Seq<u8>) -> Seq<Seq<u8>> { norm_fold(segs(p), !p_is_abs(p)) }

pub open spec fn texts<T: ?Sized>(v: Seq<&T>) -> Seq<Seq<u8>> { Seq::new(v.len(), |i: int| bytes_of(v[i])) }

} // verus!
verus! {
pub proof fn lemma_texts_push<T: ?Sized>(v: Seq<&T>, x: &T)
    ensures texts(v.push(x)) =~= texts(v).push(bytes_of(x)),
{ }
pub proof fn lemma_texts_drop<T: ?Sized>(v: Seq<&T>)
    requires v.len() > 0,
    ensures texts(v.drop_last()) =~= texts(v).drop_last(), texts(v).last() == bytes_of(v.last()),
{ }
pub proof fn lemma_norm_fold_push(l: Seq<Seq<u8>>, s: Seq<u8>, relative: bool)
    ensures norm_fold(l.push(s), relative) == norm_step(norm_fold(l, relative), s, relative),
{
    reveal(path_fits); reveal(emb_fits);
    assert(l.push(s).drop_last() =~= l);
}
} // verus!

verus! {
/// verified stand-in for `b == PARENT_SEGMENT` (PARENT_SEGMENT = b"..")
pub fn is_parent_bytes(b: &[u8]) -> (r: bool)
    ensures r == is_dotdot(b@),
{
    b.len() == 2 && b[0] == 46u8 && b[1] == 46u8
}
} // verus!

verus! {
/// verified stand-in for `o == Some(PARENT_SEGMENT)`
pub fn opt_is_parent_bytes(o: Option<&[u8]>) -> (r: bool)
    ensures r == (o is Some && is_dotdot(o.unwrap()@)),
{
    match o { Some(b) => b.len() == 2 && b[0] == 46u8 && b[1] == 46u8, None => false }
}
} // verus!

verus! {
/// verified stand-ins for the consts PARENT_SEGMENT (b"..") and CURRENT_SEGMENT (b".") in expression position
pub fn parent_bytes() -> (r: &'static [u8])
    ensures r@ =~= sq2(46, 46),
{
    let a: &'static [u8; 2] = &[46u8, 46u8];
    a
}
pub fn current_bytes() -> (r: &'static [u8])
    ensures r@ =~= sq1(46),
{
    let a: &'static [u8; 1] = &[46u8];
    a
}
} // verus!
verus! {
// TRUSTED contracts of smallvec (continued)
pub assume_specification<A: smallvec::Array> [<smallvec::IntoIter<A> as Iterator>::next] (it: &mut smallvec::IntoIter<A>) -> (r: Option<A::Item>)
    ensures
        svi_view(old(it)).len() > 0 ==> r == Some(svi_view(old(it))[0]) && svi_view(final(it)) == svi_view(old(it)).drop_first(),
        svi_view(old(it)).len() == 0 ==> r is None && svi_view(final(it)) == svi_view(old(it));
pub assume_specification<A: smallvec::Array> [<smallvec::IntoIter<A> as DoubleEndedIterator>::next_back] (it: &mut smallvec::IntoIter<A>) -> (r: Option<A::Item>)
    ensures
        svi_view(old(it)).len() > 0 ==> r == Some(svi_view(old(it)).last()) && svi_view(final(it)) == svi_view(old(it)).drop_last(),
        svi_view(old(it)).len() == 0 ==> r is None && svi_view(final(it)) == svi_view(old(it));
pub assume_specification<A: smallvec::Array> [smallvec::SmallVec::<A>::extend_from_slice] (v: &mut smallvec::SmallVec<A>, s: &[A::Item])
    where A::Item: Copy
    ensures sv_view(final(v)) == sv_view(old(v)) + s@;

/// segments joined with '/'
pub open spec fn join_slash(l: Seq<Seq<u8>>) -> Seq<u8>
    decreases l.len()
{
    if l.len() == 0 { sq0() } else if l.len() == 1 { l[0] } else { join_slash(l.drop_last()) + sq1(47) + l.last() }
}
/// does the rendering of the normalized sequence need a "./" shield (same rule as push)?
pub open spec fn norm_shield(n: Seq<Seq<u8>>, abs: bool, fa: bool, at0: bool) -> bool {
    n.len() > 0 && ((n[0].len() == 0 && !(fa && abs)) || (at0 && has_colon(n[0])))
}
/// text after in-place normalisation
pub open spec fn normalize_text(p: Seq<u8>, fa: bool, at0: bool) -> Seq<u8> {
    let n = norm_segs(p);
    p.subrange(0, p_first_off(p)) + (if norm_shield(n, p_is_abs(p), fa, at0) { sq2(46, 47) } else { sq0() }) + join_slash(n)
}
pub proof fn lemma_join_push(l: Seq<Seq<u8>>, s: Seq<u8>)
    ensures join_slash(l.push(s)) == (if l.len() == 0 { s } else { join_slash(l) + sq1(47) + s }),
{
    reveal(path_fits); reveal(emb_fits);
    assert(l.push(s).drop_last() =~= l);
}
} // verus!

verus! {
/// trait-bound-free name for "the texts an iterator still yields" (see axiom_view_texts in path.rs)
pub uninterp spec fn view_texts<T>(t: &T) -> Seq<Seq<u8>>;
} // verus!

verus! {
pub proof fn lemma_cs_is_csqf_dummy() { }

pub proof fn lemma_norm_step_shape(st: Seq<Seq<u8>>, s: Seq<u8>, relative: bool)
    requires forall|i: int| 0 <= i < st.len() ==> seg_shape(#[trigger] st[i]), seg_shape(s),
    ensures forall|i: int| 0 <= i < norm_step(st, s, relative).len() ==> seg_shape(#[trigger] norm_step(st, s, relative)[i]),
{ }
} // verus!
verus! {
pub open spec fn all_segs(l: Seq<Seq<u8>>) -> bool { forall|i: int| 0 <= i < l.len() ==> seg_shape(#[trigger] l[i]) }

pub proof fn lemma_split_shape(p: Seq<u8>, i: int)
    requires path_shape(p), 0 <= i <= p.len(),
    ensures all_segs(split_from(p, i)),
    decreases p.len() - i
{
    reveal(path_fits); reveal(emb_fits);
    lemma_first_of_bounds(p, i, C_SLASH);
    let e = first_of(p, i, C_SLASH);
    let e2 = if e >= p.len() { p.len() as int } else { e };
    let s0 = p.subrange(i, e2);
    assert(seg_shape(s0)) by { assert(forall|j: int| 0 <= j < s0.len() ==> #[trigger] s0[j] == p[i + j]); }
    if e < p.len() {
        lemma_split_shape(p, e + 1);
        let rest = split_from(p, e + 1);
        let all = split_from(p, i);
        assert(all =~= seq![s0] + rest);
        assert forall|k: int| 0 <= k < all.len() implies seg_shape(#[trigger] all[k]) by {
            if k > 0 { assert(all[k] == rest[k - 1]); }
        }
    }
}
pub proof fn lemma_segs_shape(p: Seq<u8>)
    requires path_shape(p),
    ensures all_segs(segs(p)),
{
    reveal(path_fits); reveal(emb_fits);
    if !p_is_empty(p) { lemma_split_shape(p, p_first_off(p)); }
}
pub proof fn lemma_norm_fold_shape(l: Seq<Seq<u8>>, relative: bool)
    requires all_segs(l),
    ensures all_segs(norm_fold(l, relative)),
    decreases l.len()
{
    reveal(path_fits); reveal(emb_fits);
    if l.len() > 0 {
        lemma_norm_fold_shape(l.drop_last(), relative);
        lemma_norm_step_shape(norm_fold(l.drop_last(), relative), l.last(), relative);
    }
}
pub proof fn lemma_join_shape(l: Seq<Seq<u8>>)
    requires all_segs(l),
    ensures path_shape(join_slash(l)),
    decreases l.len()
{
    reveal(path_fits); reveal(emb_fits);
    if l.len() > 1 {
        lemma_join_shape(l.drop_last());
        let a = join_slash(l.drop_last());
        let r = join_slash(l);
        assert forall|j: int| 0 <= j < r.len() implies !cls(C_QF, #[trigger] r[j]) by {
            if j < a.len() { assert(r[j] == a[j]); } else if j == a.len() { } else { assert(r[j] == l.last()[j - a.len() - 1]); }
        }
    } else if l.len() == 1 {
        assert(seg_shape(l[0]));
    }
}
pub proof fn lemma_normalize_shape(p: Seq<u8>, fa: bool, at0: bool)
    requires path_shape(p),
    ensures path_shape(normalize_text(p, fa, at0)),
{
    reveal(path_fits); reveal(emb_fits);
    lemma_segs_shape(p);
    lemma_norm_fold_shape(segs(p), !p_is_abs(p));
    let n = norm_segs(p);
    lemma_join_shape(n);
    let j = join_slash(n);
    let pre = p.subrange(0, p_first_off(p));
    let sh = if norm_shield(n, p_is_abs(p), fa, at0) { sq2(46, 47) } else { sq0() };
    let r = normalize_text(p, fa, at0);
    assert forall|k: int| 0 <= k < r.len() implies !cls(C_QF, #[trigger] r[k]) by {
        if k < pre.len() { assert(r[k] == p[k]); }
        else if k < pre.len() + sh.len() { assert(r[k] == sh[k - pre.len()]); }
        else { assert(r[k] == j[k - pre.len() - sh.len()]); }
    }
}
} // verus!
verus! {
pub proof fn lemma_join_len(l: Seq<Seq<u8>>, s: Seq<u8>)
    ensures join_slash(l.push(s)).len() == join_slash(l).len() + (if l.len() > 0 { 1int } else { 0int }) + s.len(),
{
    reveal(path_fits); reveal(emb_fits);
    lemma_join_push(l, s);
}
pub proof fn lemma_join_drop(l: Seq<Seq<u8>>)
    requires l.len() > 0,
    ensures join_slash(l.drop_last()).len() <= join_slash(l).len(), l.len() >= 2 ==> join_slash(l.drop_last()).len() + 1 <= join_slash(l).len(),
{
    reveal(path_fits); reveal(emb_fits);
    if l.len() == 1 { assert(l.drop_last().len() == 0); }
}
/// normalisation never lengthens: the joined normalized sequence is no longer than the joined input,
/// and has no more segments
pub proof fn lemma_norm_len(l: Seq<Seq<u8>>, relative: bool)
    ensures
        norm_fold(l, relative).len() <= l.len(),
        join_slash(norm_fold(l, relative)).len() <= join_slash(l).len(),
    decreases l.len()
{
    reveal(path_fits); reveal(emb_fits);
    if l.len() > 0 {
        let l0 = l.drop_last();
        let s = l.last();
        lemma_norm_len(l0, relative);
        let n0 = norm_fold(l0, relative);
        assert(l =~= l0.push(s));
        lemma_join_len(l0, s);
        lemma_join_len(n0, s);
        if n0.len() > 0 { lemma_join_drop(n0); }
    }
}
/// the joined segment sequence of a path is the path without its leading '/'
pub proof fn lemma_join_split(p: Seq<u8>, i: int)
    requires 0 <= i <= p.len(),
    ensures join_slash(split_from(p, i)) =~= p.subrange(i, p.len() as int), split_from(p, i).len() <= p.len() - i + 1,
    decreases p.len() - i
{
    reveal(path_fits); reveal(emb_fits);
    lemma_first_of_bounds(p, i, C_SLASH);
    let e = first_of(p, i, C_SLASH);
    if e < p.len() {
        lemma_join_split(p, e + 1);
        lemma_join_front(p.subrange(i, e), split_from(p, e + 1));
        lemma_split_nonempty(p, e + 1);
        assert(split_from(p, i) =~= seq![p.subrange(i, e)] + split_from(p, e + 1));
        assert(p.subrange(i, p.len() as int) =~= p.subrange(i, e) + sq1(47) + p.subrange(e + 1, p.len() as int));
    }
}
pub proof fn lemma_join_front(s: Seq<u8>, l: Seq<Seq<u8>>)
    requires l.len() > 0,
    ensures join_slash(seq![s] + l) =~= s + sq1(47) + join_slash(l),
    decreases l.len()
{
    reveal(path_fits); reveal(emb_fits);
    let all = seq![s] + l;
    assert(all.drop_last() =~= seq![s] + l.drop_last());
    assert(all.last() == l.last());
    if l.len() == 1 {
        assert(all.drop_last() =~= seq![s]);
        assert(join_slash(all.drop_last()) == s);
    } else {
        lemma_join_front(s, l.drop_last());
    }
}
pub proof fn lemma_normalize_len(p: Seq<u8>, fa: bool, at0: bool)
    ensures
        norm_segs(p).len() <= p.len() + 1,
        join_slash(norm_segs(p)).len() + p_first_off(p) <= p.len(),
        normalize_text(p, fa, at0).len() <= p.len() + 2,
{
    reveal(path_fits); reveal(emb_fits);
    lemma_norm_len(segs(p), !p_is_abs(p));
    if !p_is_empty(p) { lemma_join_split(p, p_first_off(p)); }
}
/// a prefix of a sequence joins to something no longer than the whole
pub proof fn lemma_join_prefix_len(a: Seq<Seq<u8>>, b: Seq<Seq<u8>>)
    ensures join_slash(a).len() <= join_slash(a + b).len(),
    decreases b.len()
{
    reveal(path_fits); reveal(emb_fits);
    if b.len() > 0 {
        lemma_join_prefix_len(a, b.drop_last());
        assert((a + b).drop_last() =~= a + b.drop_last());
        assert(a + b =~= (a + b.drop_last()).push(b.last()));
        lemma_join_len(a + b.drop_last(), b.last());
    } else {
        assert(a + b =~= a);
    }
}
} // verus!
verus! {
pub assume_specification<A: smallvec::Array> [smallvec::SmallVec::<A>::is_empty] (v: &smallvec::SmallVec<A>) -> (r: bool)
    ensures r == (sv_view(v).len() == 0);
} // verus!
verus! {
/// the rendering of a non-empty sequence starts with its first segment, followed by '/' or the end
pub proof fn lemma_join_head(n: Seq<Seq<u8>>)
    requires n.len() > 0,
    ensures
        join_slash(n).len() >= n[0].len(),
        join_slash(n).subrange(0, n[0].len() as int) =~= n[0],
        join_slash(n).len() > n[0].len() ==> join_slash(n)[n[0].len() as int] == 47,
        n.len() == 1 ==> join_slash(n) == n[0],
{
    reveal(path_fits); reveal(emb_fits);
    if n.len() > 1 {
        let l = n.drop_first();
        assert(n =~= seq![n[0]] + l);
        lemma_join_front(n[0], l);
    }
}
/// in-place normalisation keeps the path unambiguous in its context (absolute after an authority,
/// no leading "//" without one, no ':' in a first segment that starts the reference)
pub proof fn lemma_normalize_fits(p: Seq<u8>, fa: bool, at0: bool)
    requires emb_fits(p, fa, at0),
    ensures emb_fits(normalize_text(p, fa, at0), fa, at0), p_is_abs(normalize_text(p, fa, at0)) == p_is_abs(p) || (norm_segs(p).len() == 0 && !p_is_abs(p)),
{
    reveal(path_fits); reveal(emb_fits);
    lemma_normalize_shape(p, fa, at0);
    lemma_segs_shape(p);
    lemma_norm_fold_shape(segs(p), !p_is_abs(p));
    let n = norm_segs(p);
    let abs = p_is_abs(p);
    let pre = p.subrange(0, p_first_off(p));
    let sh = if norm_shield(n, abs, fa, at0) { sq2(46, 47) } else { sq0() };
    let j = join_slash(n);
    let r = normalize_text(p, fa, at0);
    assert(r =~= pre + sh + j);
    if n.len() > 0 {
        lemma_join_head(n);
        let s0 = n[0];
        assert(seg_shape(s0));
        lemma_cs_is_csqf_seg(s0);
        if abs {
            assert(r[0] == 47);
            if sh.len() > 0 { assert(r[1] == 46); }
            else if j.len() > 0 {
                assert(r[1] == j[0]);
                if s0.len() > 0 { assert(j[0] == s0[0]); } else { assert(j[0] == 47); }
            }
            lemma_first_of_is(r, 0, C_CSQF, 0);
        } else {
            if sh.len() > 0 {
                assert(r[0] == 46 && r[1] == 47);
                assert(first_of(r, 0, C_CSQF) == first_of(r, 1, C_CSQF));
                lemma_first_of_is(r, 1, C_CSQF, 1);
            } else {
                // first segment of r is s0 (non-empty, no shield needed)
                assert(s0.len() > 0);
                assert(r =~= j);
                assert(r[0] == s0[0]);
                if at0 && !fa {
                    // no ':' in s0, and after it comes '/' or the end
                    lemma_first_of_bounds(s0, 0, C_CSQF);
                    assert(first_of(s0, 0, C_CSQF) == s0.len()) by {
                        lemma_first_of_bounds(s0, 0, C_CS);
                        if first_of(s0, 0, C_CSQF) < s0.len() { }
                    }
                    assert forall|k: int| 0 <= k < s0.len() implies !cls(C_CSQF, #[trigger] r[k]) by { assert(r[k] == s0[k]); }
                    lemma_first_of_is(r, 0, C_CSQF, s0.len() as int);
                }
            }
        }
    } else {
        assert(r =~= pre);
        if abs { lemma_first_of_is(r, 0, C_CSQF, 0); }
    }
}
} // verus!

verus! {
/// total length (texts + one separator each) of what an iterator still yields
pub uninterp spec fn view_texts_len<T>(t: &T) -> nat;
} // verus!
verus! {
// ---- C09: what the exact text means: segments of the rendering, idempotence ----

/// a normalized sequence: no ".", and ".." only as a leading run of a relative path
pub open spec fn is_normal(n: Seq<Seq<u8>>, rel: bool) -> bool {
    forall|i: int| 0 <= i < n.len() ==> !is_dot(#[trigger] n[i]) && (is_dotdot(n[i]) ==> rel && (i == 0 || is_dotdot(n[i - 1])))
}
pub proof fn lemma_norm_step_normal(st: Seq<Seq<u8>>, s: Seq<u8>, rel: bool)
    requires is_normal(st, rel),
    ensures is_normal(norm_step(st, s, rel), rel),
{
    let r = norm_step(st, s, rel);
    assert forall|i: int| 0 <= i < r.len() implies !is_dot(#[trigger] r[i]) && (is_dotdot(r[i]) ==> rel && (i == 0 || is_dotdot(r[i - 1]))) by {
        if i < st.len() && i < r.len() { assert(r[i] == st[i]); if i > 0 { assert(r[i - 1] == st[i - 1]); } }
        else {
            // the pushed element
            assert(r =~= st.push(s));
            if is_dotdot(s) && st.len() > 0 { assert(is_dotdot(st.last())); assert(st[st.len() - 1] == st.last()); }
        }
    }
}
/// the fold yields a normalized sequence
pub proof fn lemma_norm_fold_normal(l: Seq<Seq<u8>>, rel: bool)
    ensures is_normal(norm_fold(l, rel), rel),
    decreases l.len()
{
    if l.len() > 0 {
        lemma_norm_fold_normal(l.drop_last(), rel);
        lemma_norm_step_normal(norm_fold(l.drop_last(), rel), l.last(), rel);
    }
}
/// normalizing a normalized sequence changes nothing
pub proof fn lemma_norm_fold_fix(n: Seq<Seq<u8>>, rel: bool)
    requires is_normal(n, rel),
    ensures norm_fold(n, rel) =~= n,
    decreases n.len()
{
    if n.len() > 0 {
        let m = n.drop_last();
        assert forall|i: int| 0 <= i < m.len() implies !is_dot(#[trigger] m[i]) && (is_dotdot(m[i]) ==> rel && (i == 0 || is_dotdot(m[i - 1]))) by {
            assert(m[i] == n[i]); if i > 0 { assert(m[i - 1] == n[i - 1]); }
        }
        lemma_norm_fold_fix(m, rel);
        let s = n.last();
        assert(s == n[n.len() - 1]);
        if is_dotdot(s) && m.len() > 0 { assert(m.last() == n[n.len() - 2]); }
        assert(norm_step(m, s, rel) =~= m.push(s));
        assert(m.push(s) =~= n);
    }
}
/// a leading "." (the shield) is dropped by the fold
pub proof fn lemma_norm_fold_dot_front(n: Seq<Seq<u8>>, rel: bool)
    ensures norm_fold(seq![sq1(46)] + n, rel) =~= norm_fold(n, rel),
    decreases n.len()
{
    let d = seq![sq1(46)];
    if n.len() == 0 {
        assert(d + n =~= d);
        assert(d.drop_last() =~= Seq::<Seq<u8>>::empty());
        assert(is_dot(d.last()));
        assert(norm_fold(d, rel) == norm_step(norm_fold(d.drop_last(), rel), d.last(), rel));
        assert(norm_fold(Seq::<Seq<u8>>::empty(), rel) =~= Seq::<Seq<u8>>::empty());
    } else {
        let a = d + n;
        assert(a.drop_last() =~= d + n.drop_last());
        assert(a.last() == n.last());
        lemma_norm_fold_dot_front(n.drop_last(), rel);
        assert(norm_fold(a, rel) == norm_step(norm_fold(a.drop_last(), rel), a.last(), rel));
        assert(norm_fold(n, rel) == norm_step(norm_fold(n.drop_last(), rel), n.last(), rel));
        assert(norm_fold(d + n.drop_last(), rel) == norm_fold(n.drop_last(), rel));
    }
}
/// splitting the '/'-join of slash-free pieces gives the pieces back
pub proof fn lemma_split_join(l: Seq<Seq<u8>>)
    requires l.len() > 0, forall|i: int| 0 <= i < l.len() ==> no_slash(#[trigger] l[i]),
    ensures split_from(join_slash(l), 0) =~= l,
    decreases l.len()
{
    if l.len() == 1 {
        lemma_split_single(l[0], 0);
        assert(l[0].subrange(0, l[0].len() as int) =~= l[0]);
    } else {
        let m = l.drop_last();
        assert forall|i: int| 0 <= i < m.len() implies no_slash(#[trigger] m[i]) by { assert(m[i] == l[i]); }
        lemma_split_join(m);
        assert(l.last() == l[l.len() - 1]);
        lemma_split_push(join_slash(m), l.last(), 0);
        assert(m.push(l.last()) =~= l);
    }
}
/// same from offset k when the text before k is one byte (the leading '/')
pub proof fn lemma_split_shift(t: Seq<u8>, u: Seq<u8>)
    requires t =~= sq1(47) + u,
    ensures split_from(t, 1) =~= split_from(u, 0),
    decreases u.len()
{
    lemma_split_shift_at(t, u, 0);
}
proof fn lemma_split_shift_at(t: Seq<u8>, u: Seq<u8>, i: int)
    requires t =~= sq1(47) + u, 0 <= i <= u.len(),
    ensures split_from(t, i + 1) =~= split_from(u, i),
    decreases u.len() - i
{
    lemma_first_of_bounds(u, i, C_SLASH);
    let e = first_of(u, i, C_SLASH);
    assert forall|j: int| i <= j < e implies !cls(C_SLASH, #[trigger] t[j + 1]) by { assert(t[j + 1] == u[j]); }
    if e < u.len() {
        assert(t[e + 1] == u[e]);
        lemma_first_of_is(t, i + 1, C_SLASH, e + 1);
        lemma_split_shift_at(t, u, e + 1);
        assert(t.subrange(i + 1, e + 1) =~= u.subrange(i, e));
    } else {
        assert forall|j: int| i + 1 <= j < t.len() implies !cls(C_SLASH, #[trigger] t[j]) by { assert(t[j] == u[j - 1]); }
        lemma_first_of_none(t, i + 1, C_SLASH);
        assert(t.subrange(i + 1, t.len() as int) =~= u.subrange(i, u.len() as int));
    }
}
/// the shield sequence in front of the normalized one
pub open spec fn shield_seq(p: Seq<u8>, fa: bool, at0: bool) -> Seq<Seq<u8>> {
    if norm_shield(norm_segs(p), p_is_abs(p), fa, at0) { seq![sq1(46)] } else { Seq::empty() }
}
/// the one text that stands for two sequences: "/" is the empty path AND (after an authority, where no shield is
/// written) the rendering of the single empty segment
pub open spec fn lone_empty_unshielded(p: Seq<u8>, fa: bool, at0: bool) -> bool {
    norm_segs(p).len() == 1 && norm_segs(p)[0].len() == 0 && !norm_shield(norm_segs(p), p_is_abs(p), fa, at0)
}
/// C09, meaning of the exact text: the segments of the in-place normalized path are the normalized sequence, preceded
/// by a single "." exactly when the shield rule asks for it; the path stays absolute / relative as it was
pub proof fn lemma_normalize_segs(p: Seq<u8>, fa: bool, at0: bool)
    requires path_shape(p), !lone_empty_unshielded(p, fa, at0),
    ensures segs(normalize_text(p, fa, at0)) =~= shield_seq(p, fa, at0) + norm_segs(p),
        p_is_abs(normalize_text(p, fa, at0)) == p_is_abs(p),
{
    let n = norm_segs(p);
    let t = normalize_text(p, fa, at0);
    let sh = shield_seq(p, fa, at0);
    let off = p.subrange(0, p_first_off(p));
    lemma_segs_shape(p);
    lemma_norm_fold_shape(segs(p), !p_is_abs(p));
    if n.len() == 0 {
        assert(t =~= off);
    } else {
        let all = sh + n;
        assert forall|i: int| 0 <= i < all.len() implies no_slash(#[trigger] all[i]) by {
            if sh.len() > 0 && i == 0 { assert(all[0] == sq1(46)); }
            else { assert(all[i] == n[i - sh.len()]); assert(seg_shape(n[i - sh.len()])); }
        }
        // t = off + join(all)
        if sh.len() > 0 { lemma_join_front(sq1(46), n); assert(join_slash(all) =~= sq2(46, 47) + join_slash(n)); }
        else { assert(all =~= n); }
        let body = join_slash(all);
        assert(t =~= off + body);
        lemma_split_join(all);
        lemma_join_head(all);
        if p_is_abs(p) {
            assert(off =~= sq1(47));
            lemma_split_shift(t, body);
            // t is not "/" alone: body is non-empty unless all == [""], which is the excluded case
            if body.len() == 0 { assert(all.len() == 1 ==> all[0] =~= body); }
        } else {
            assert(off =~= sq0());
            assert(t =~= body);
        }
    }
}
/// C09: in-place normalisation is idempotent on the text level
pub proof fn lemma_normalize_idempotent(p: Seq<u8>, fa: bool, at0: bool)
    requires path_shape(p),
    ensures normalize_text(normalize_text(p, fa, at0), fa, at0) =~= normalize_text(p, fa, at0),
{
    let n = norm_segs(p);
    let t = normalize_text(p, fa, at0);
    let rel = !p_is_abs(p);
    lemma_norm_fold_normal(segs(p), rel);
    if lone_empty_unshielded(p, fa, at0) {
        // t == "/" (absolute, after an authority) or t == "" cannot happen (relative empty first segment is shielded)
        assert(join_slash(n) =~= n[0]);
        assert(t =~= p.subrange(0, p_first_off(p)));
    } else {
        lemma_normalize_segs(p, fa, at0);
        let sh = shield_seq(p, fa, at0);
        if sh.len() > 0 { lemma_norm_fold_dot_front(n, rel); } else { assert(sh + n =~= n); }
        lemma_norm_fold_fix(n, rel);
        assert(norm_segs(t) =~= n);
        assert(t.subrange(0, p_first_off(t)) =~= p.subrange(0, p_first_off(p)));
    }
}
} // verus!
verus! {
// ---- C16: suffix ----
/// the character sequence pct_str's decoder (`PctStr::chars`) yields for a text: percent-decoding, then reading the
/// octets as characters. Uninterpreted: the dependency is not verified; everything about comparison is stated relative to it.
pub uninterp spec fn pct_chars(a: Seq<u8>) -> Seq<char>;
/// equality of two texts as percent-encoded strings (pct_str's PartialEq compares the decoded characters pairwise)
pub open spec fn pct_eq(a: Seq<u8>, b: Seq<u8>) -> bool { pct_chars(a) == pct_chars(b) }
pub assume_specification [<pct_str::PctStr as PartialEq>::eq] (a: &pct_str::PctStr, b: &pct_str::PctStr) -> (r: bool)
    ensures r == pct_eq(pct_text(a), pct_text(b));
/// `pre` is a leading part of `full`, segment by segment
pub open spec fn pct_prefix(pre: Seq<Seq<u8>>, full: Seq<Seq<u8>>) -> bool {
    pre.len() <= full.len() && forall|i: int| 0 <= i < pre.len() ==> pct_eq(#[trigger] full[i], pre[i])
}
/// successive pushes onto a path text
pub open spec fn push_fold(p: Seq<u8>, l: Seq<Seq<u8>>, fa: bool, at0: bool) -> Seq<u8>
    decreases l.len()
{
    if l.len() == 0 { p } else { push_text(push_fold(p, l.drop_last(), fa, at0), l.last(), fa, at0) }
}
pub proof fn lemma_push_fold_push(p: Seq<u8>, l: Seq<Seq<u8>>, s: Seq<u8>, fa: bool, at0: bool)
    ensures push_fold(p, l.push(s), fa, at0) == push_text(push_fold(p, l, fa, at0), s, fa, at0),
{
    assert(l.push(s).drop_last() =~= l);
}
/// the text of a default-constructed owned path
pub uninterp spec fn default_bytes<T>() -> Seq<u8>;
/// TRUSTED: the owned path types of the facade derive Default from Vec<u8> / String: the empty path
#[verifier::external_body]
pub proof fn axiom_default_path_buf<B: crate::common::path::PathBufImpl>()
    ensures default_bytes::<B>() == sq0(),
{}
pub proof fn lemma_push_len(p: Seq<u8>, s: Seq<u8>, fa: bool, at0: bool)
    ensures push_text(p, s, fa, at0).len() <= p.len() + s.len() + 4,
{
    reveal(push_text0);
}
pub proof fn lemma_push_fold_len(p: Seq<u8>, l: Seq<Seq<u8>>, fa: bool, at0: bool)
    ensures push_fold(p, l, fa, at0).len() <= p.len() + total_len(l), total_len(l) >= 0,
    decreases l.len()
{
    if l.len() > 0 {
        lemma_push_fold_len(p, l.drop_last(), fa, at0);
        lemma_push_len(push_fold(p, l.drop_last(), fa, at0), l.last(), fa, at0);
    }
}
/// total_len is monotone in sub-sequences
pub proof fn lemma_total_len_sub(l: Seq<Seq<u8>>, i: int, j: int)
    requires 0 <= i <= j <= l.len(),
    ensures 0 <= total_len(l.subrange(i, j)) <= total_len(l),
    decreases l.len()
{
    if l.len() > 0 {
        if j == l.len() {
            if i == j { assert(l.subrange(i, j) =~= Seq::<Seq<u8>>::empty()); lemma_total_len_sub(l.drop_last(), 0, 0); assert(l.drop_last().subrange(0, 0) =~= Seq::<Seq<u8>>::empty()); }
            else {
                assert(l.subrange(i, j).drop_last() =~= l.drop_last().subrange(i, j - 1));
                assert(l.subrange(i, j).last() == l.last());
                lemma_total_len_sub(l.drop_last(), i, j - 1);
            }
        } else {
            assert(l.subrange(i, j) =~= l.drop_last().subrange(i, j));
            lemma_total_len_sub(l.drop_last(), i, j);
        }
    } else { assert(l.subrange(i, j) =~= l); }
}
/// the normalized sequence of a path is no longer (in total_len) than 6 bytes per byte of the path
pub proof fn lemma_total_len_norm(p: Seq<u8>)
    requires path_shape(p),
    ensures total_len(norm_segs(p)) <= 6 * (p.len() + 1),
{
    lemma_total_len_norm_fold(segs(p), !p_is_abs(p));
    if !p_is_empty(p) { lemma_total_len_split(p, p_first_off(p)); }
}
pub proof fn lemma_total_len_norm_fold(l: Seq<Seq<u8>>, rel: bool)
    ensures total_len(norm_fold(l, rel)) <= total_len(l), total_len(l) >= 0,
    decreases l.len()
{
    if l.len() > 0 {
        lemma_total_len_norm_fold(l.drop_last(), rel);
        let st = norm_fold(l.drop_last(), rel);
        let s = l.last();
        let r = norm_step(st, s, rel);
        if r =~= st.push(s) { assert(r.drop_last() =~= st); assert(r.last() == s); }
        else if st.len() > 0 && r =~= st.drop_last() { lemma_total_len_norm_fold_nonneg(st.drop_last()); }
    }
}
proof fn lemma_total_len_norm_fold_nonneg(l: Seq<Seq<u8>>)
    ensures total_len(l) >= 0,
    decreases l.len()
{
    if l.len() > 0 { lemma_total_len_norm_fold_nonneg(l.drop_last()); }
}
} // verus!
