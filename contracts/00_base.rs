// Ghost vocabulary shared by all contracts (DESIGN.md section 4). Spec/proof code only.

verus! {

/// The text of any value (borrowed component, owned buffer, ...). Uninterpreted: pinned down
/// by the contracts of `as_bytes` / `new_unchecked` / `as_mut_vec` on the repository's traits.
pub uninterp spec fn bytes_of<T: ?Sized>(t: &T) -> Seq<u8>;

// ---- character classes (first-order ids instead of spec closures) ------------------------
pub spec const C_COLON: int = 0;   // ':'
pub spec const C_SQF: int = 1;     // '/' '?' '#'
pub spec const C_QF: int = 2;      // '?' '#'
pub spec const C_F: int = 3;       // '#'
pub spec const C_CSQF: int = 4;    // ':' '/' '?' '#'
pub spec const C_AT: int = 5;      // '@'
pub spec const C_RB: int = 6;      // ']'
pub spec const C_SLASH: int = 7;   // '/'
pub spec const C_CS: int = 8;      // ':' '/'

pub open spec fn cls(c: int, b: u8) -> bool {
    if c == C_COLON { b == 58 }
    else if c == C_SQF { b == 47 || b == 63 || b == 35 }
    else if c == C_QF { b == 63 || b == 35 }
    else if c == C_F { b == 35 }
    else if c == C_CSQF { b == 58 || b == 47 || b == 63 || b == 35 }
    else if c == C_AT { b == 64 }
    else if c == C_RB { b == 93 }
    else if c == C_SLASH { b == 47 }
    else if c == C_CS { b == 58 || b == 47 }
    else { false }
}

/// least index `k >= from` with `cls(c, s[k])`, or `s.len()` when there is none.
pub open spec fn first_of(s: Seq<u8>, from: int, c: int) -> int
    decreases s.len() - from
{
    if from < 0 || from >= s.len() { s.len() as int }
    else if cls(c, s[from]) { from }
    else { first_of(s, from + 1, c) }
}

pub proof fn lemma_first_of_bounds(s: Seq<u8>, from: int, c: int)
    requires 0 <= from <= s.len(),
    ensures from <= first_of(s, from, c) <= s.len(),
            first_of(s, from, c) < s.len() ==> cls(c, s[first_of(s, from, c)]),
            forall|j: int| from <= j < first_of(s, from, c) ==> !cls(c, #[trigger] s[j]),
    decreases s.len() - from
{
    if from < s.len() && !cls(c, s[from]) {
        lemma_first_of_bounds(s, from + 1, c);
    }
}

/// characterisation used at the exit of scanner loops
pub proof fn lemma_first_of_is(s: Seq<u8>, from: int, c: int, k: int)
    requires 0 <= from <= k <= s.len(),
             forall|j: int| from <= j < k ==> !cls(c, #[trigger] s[j]),
             k < s.len() ==> cls(c, s[k]),
    ensures first_of(s, from, c) == k,
    decreases k - from
{
    if from < k {
        lemma_first_of_is(s, from + 1, c, k);
    }
}

/// skipping a prefix that has no character of the class
pub proof fn lemma_first_of_skip(s: Seq<u8>, from: int, mid: int, c: int)
    requires 0 <= from <= mid <= s.len(),
             forall|j: int| from <= j < mid ==> !cls(c, #[trigger] s[j]),
    ensures first_of(s, from, c) == first_of(s, mid, c),
    decreases mid - from
{
    if from < mid {
        lemma_first_of_skip(s, from + 1, mid, c);
    }
}

/// a smaller class is found no earlier than a larger one
pub proof fn lemma_first_of_subclass(s: Seq<u8>, from: int, c1: int, c2: int)
    requires 0 <= from <= s.len(),
             forall|b: u8| cls(c1, b) ==> cls(c2, b),
    ensures first_of(s, from, c2) <= first_of(s, from, c1),
    decreases s.len() - from
{
    lemma_first_of_bounds(s, from, c1);
    if from < s.len() && !cls(c2, s[from]) {
        lemma_first_of_subclass(s, from + 1, c1, c2);
    }
}

pub open spec fn dslash(s: Seq<u8>, i: int) -> bool {
    0 <= i && i + 1 < s.len() && s[i] == 47 && s[i + 1] == 47
}

// ---- RFC 3986 Appendix B decomposition, as the code computes it -----------------------------
// `x_*` = positions in `s`. Presence is separate from extent, so empty-but-present != absent.
pub open spec fn x_sch_end(s: Seq<u8>) -> int { first_of(s, 0, C_CSQF) }
pub open spec fn x_has_sch(s: Seq<u8>) -> bool { x_sch_end(s) < s.len() && s[x_sch_end(s)] == 58 }
pub open spec fn x_hier(s: Seq<u8>) -> int { if x_has_sch(s) { x_sch_end(s) + 1 } else { 0 } }
pub open spec fn x_has_auth(s: Seq<u8>) -> bool { dslash(s, x_hier(s)) }
pub open spec fn x_auth_start(s: Seq<u8>) -> int { x_hier(s) + 2 }
pub open spec fn x_auth_end(s: Seq<u8>) -> int { if x_has_auth(s) { first_of(s, x_hier(s) + 2, C_SQF) } else { x_hier(s) } }
pub open spec fn x_path_end(s: Seq<u8>) -> int { first_of(s, x_auth_end(s), C_QF) }
pub open spec fn x_has_query(s: Seq<u8>) -> bool { x_path_end(s) < s.len() && s[x_path_end(s)] == 63 }
pub open spec fn x_query_end(s: Seq<u8>) -> int { if x_has_query(s) { first_of(s, x_path_end(s) + 1, C_F) } else { x_path_end(s) } }
pub open spec fn x_has_frag(s: Seq<u8>) -> bool { x_query_end(s) < s.len() && s[x_query_end(s)] == 35 }

pub struct Parts5 {
    pub scheme: Option<(int, int)>,
    pub authority: Option<(int, int)>,
    pub path: (int, int),
    pub query: Option<(int, int)>,
    pub fragment: Option<(int, int)>,
}

/// RFC 3986 Appendix B: ^(([^:/?#]+):)?(//([^/?#]*))?([^?#]*)(\?([^#]*))?(#(.*))?
/// written as ranges. The scheme group needs at least one character.
pub open spec fn rfc_parts(s: Seq<u8>) -> Parts5 {
    let k = first_of(s, 0, C_CSQF);
    let has_scheme = 0 < k && k < s.len() && s[k] == 58;
    let h = if has_scheme { k + 1 } else { 0 };
    let has_auth = dslash(s, h);
    let ae = if has_auth { first_of(s, h + 2, C_SQF) } else { h };
    let pe = first_of(s, ae, C_QF);
    let has_q = pe < s.len() && s[pe] == 63;
    let qe = if has_q { first_of(s, pe + 1, C_F) } else { pe };
    let has_f = qe < s.len() && s[qe] == 35;
    Parts5 {
        scheme: if has_scheme { Some((0int, k)) } else { None },
        authority: if has_auth { Some((h + 2, ae)) } else { None },
        path: (ae, pe),
        query: if has_q { Some((pe + 1, qe)) } else { None },
        fragment: if has_f { Some((qe + 1, s.len() as int)) } else { None },
    }
}

/// what the scanners of common/parse.rs compute (no "scheme is non-empty" test)
pub open spec fn x_parts(s: Seq<u8>) -> Parts5 {
    Parts5 {
        scheme: if x_has_sch(s) { Some((0int, x_sch_end(s))) } else { None },
        authority: if x_has_auth(s) { Some((x_auth_start(s), x_auth_end(s))) } else { None },
        path: (x_auth_end(s), x_path_end(s)),
        query: if x_has_query(s) { Some((x_path_end(s) + 1, x_query_end(s))) } else { None },
        fragment: if x_has_frag(s) { Some((x_query_end(s) + 1, s.len() as int)) } else { None },
    }
}

/// structural consequence of validity used as the type invariant of references:
/// a (relative) reference never starts with ':' (the scheme is non-empty and the first
/// segment of a scheme-less path has no ':').
pub open spec fn ref_shape(s: Seq<u8>) -> bool { s.len() == 0 || s[0] != 58 }

pub proof fn lemma_x_parts_is_rfc(s: Seq<u8>)
    requires ref_shape(s),
    ensures x_parts(s) == rfc_parts(s),
{
    lemma_first_of_bounds(s, 0, C_CSQF);
}

pub open spec fn opt_range(r: Option<Range<usize>>) -> Option<(int, int)> {
    match r { Some(x) => Some((x.start as int, x.end as int)), None => None }
}

pub open spec fn res_range(r: Result<Range<usize>, usize>) -> Option<(int, int)> {
    match r { Ok(x) => Some((x.start as int, x.end as int)), Err(_) => None }
}

/// all five components lie inside the text, in order, without overlap (C20), and the
/// text is exactly scheme ":" "//" authority path "?" query "#" fragment (RFC 3986 5.3).
pub proof fn lemma_x_layout(s: Seq<u8>)
    ensures
        0 <= x_sch_end(s) <= s.len(),
        0 <= x_hier(s) <= x_auth_end(s) <= x_path_end(s) <= x_query_end(s) <= s.len(),
        x_has_sch(s) ==> x_sch_end(s) + 1 == x_hier(s),
        x_has_auth(s) ==> x_hier(s) + 2 <= x_auth_end(s) && s[x_hier(s)] == 47 && s[x_hier(s) + 1] == 47,
        x_has_query(s) ==> x_path_end(s) + 1 <= x_query_end(s),
        x_has_frag(s) || x_query_end(s) == s.len(),
        !x_has_query(s) && !x_has_frag(s) ==> x_path_end(s) == s.len(),
{
    lemma_first_of_bounds(s, 0, C_CSQF);
    let h = x_hier(s);
    if x_has_auth(s) { lemma_first_of_bounds(s, h + 2, C_SQF); }
    let ae = x_auth_end(s);
    lemma_first_of_bounds(s, ae, C_QF);
    let pe = x_path_end(s);
    if x_has_query(s) { lemma_first_of_bounds(s, pe + 1, C_F); }
}

/// scanning for '?' / '#' from the start of the text finds the end of the path:
/// nothing before it (scheme, ':', "//", authority, path) contains either.
pub proof fn lemma_qf_from_zero(s: Seq<u8>)
    ensures first_of(s, 0, C_QF) == x_path_end(s),
{
    lemma_x_layout(s);
    lemma_first_of_bounds(s, 0, C_CSQF);
    let h = x_hier(s);
    if x_has_auth(s) { lemma_first_of_bounds(s, h + 2, C_SQF); }
    let ae = x_auth_end(s);
    assert forall|j: int| 0 <= j < ae implies !cls(C_QF, #[trigger] s[j]) by {
        if j < x_sch_end(s) { } else if j < h { } else if j < h + 2 { } else { }
    }
    lemma_first_of_skip(s, 0, ae, C_QF);
}

/// scanning for '#' from the start of the text finds the end of the query.
pub proof fn lemma_f_from_zero(s: Seq<u8>)
    ensures first_of(s, 0, C_F) == (if x_has_frag(s) { x_query_end(s) } else { s.len() as int }),
{
    lemma_x_layout(s);
    lemma_qf_from_zero(s);
    lemma_first_of_bounds(s, 0, C_QF);
    let pe = x_path_end(s);
    assert forall|j: int| 0 <= j < pe implies !cls(C_F, #[trigger] s[j]) by { }
    lemma_first_of_skip(s, 0, pe, C_F);
    if x_has_query(s) {
        lemma_first_of_skip(s, pe, pe + 1, C_F);
    } else {
        lemma_first_of_bounds(s, pe, C_F);
        if pe < s.len() { }
    }
    lemma_first_of_bounds(s, x_query_end(s), C_F);
}

} // verus!
verus! {
/// `s` with the range a..b replaced by `c`
pub open spec fn splice(s: Seq<u8>, a: int, b: int, c: Seq<u8>) -> Seq<u8> {
    s.subrange(0, a) + c + s.subrange(b, s.len() as int)
}
} // verus!

verus! {
// literal texts as applications of one spec function each (so that two mentions are the same term)
pub open spec fn sq0() -> Seq<u8> { Seq::<u8>::empty() }
pub open spec fn sq1(a: u8) -> Seq<u8> { seq![a] }
pub open spec fn sq2(a: u8, b: u8) -> Seq<u8> { seq![a, b] }
pub open spec fn sq3(a: u8, b: u8, c: u8) -> Seq<u8> { seq![a, b, c] }

/// std: Range::is_empty (generic over Idx; the meaning for usize is given by the axiom below). TRUSTED.
pub uninterp spec fn range_is_empty<Idx>(r: &Range<Idx>) -> bool;
pub assume_specification<Idx: PartialOrd + PartialOrd> [Range::<Idx>::is_empty] (r: &Range<Idx>) -> (b: bool)
    ensures b == range_is_empty(r);
#[verifier::external_body]
pub broadcast proof fn axiom_range_is_empty_usize(r: &Range<usize>)
    ensures #[trigger] range_is_empty(r) == !(r.start < r.end),
{}

/// std: Option::filter. The result is the outcome of one call of the predicate. TRUSTED.
pub assume_specification<T, P: FnOnce(&T) -> bool> [std::option::Option::<T>::filter] (o: Option<T>, p: P) -> (r: Option<T>)
    requires o is Some ==> p.requires((&o->Some_0,)),
    ensures match o { None => r is None, Some(x) => (r == Some(x) && p.ensures((&x,), true)) || (r is None && p.ensures((&x,), false)) };
} // verus!
