// G1a: every component of a valid URI reference is a valid value of its component type (URI family).
// The facts are proved as Verus-checked certificates over the RFC reference automata (tools/complemmas.py: scan regions,
// product relations, end conditions, induction over the text - the same automata C01 proves the generated validators
// equal to). Here each certificate theorem is restated LITERALLY (same hypotheses, positions as explicit parameters) as a
// named axiom over the uninterpreted language predicates, and the link to the App. B decomposition (x_* / r_*) is PROVED.
verus! {
/// membership of a text in the RFC 3986 productions scheme / authority / path / query / fragment
pub uninterp spec fn lang_scheme(s: Seq<u8>) -> bool;
pub uninterp spec fn lang_authority(s: Seq<u8>) -> bool;
pub uninterp spec fn lang_path(s: Seq<u8>) -> bool;
pub uninterp spec fn lang_query(s: Seq<u8>) -> bool;
pub uninterp spec fn lang_fragment(s: Seq<u8>) -> bool;

/// position h is where the hierarchical part starts: 0, or right after the ':' that closes a scheme candidate
pub open spec fn hier_prefix(s: Seq<u8>, h: int) -> bool {
    h == 0 || (0 < h <= s.len() && s[h - 1] == 58 && forall|i: int| 0 <= i < h - 1 ==> !cls(C_CSQF, #[trigger] s[i]))
}

/// certificate comp_uriref_scheme::comp_scheme
#[verifier::external_body]
pub proof fn axiom_comp_scheme(s: Seq<u8>, k: int)
    requires lang_uriref(s), 0 <= k < s.len(), s[k] == 58, forall|i: int| 0 <= i < k ==> !cls(C_CSQF, #[trigger] s[i]),
    ensures lang_scheme(s.subrange(0, k)),
{}
/// certificate comp_uriref_hier::comp_authority
#[verifier::external_body]
pub proof fn axiom_comp_authority(s: Seq<u8>, h: int, e: int)
    requires lang_uriref(s), hier_prefix(s, h), 0 <= h, h + 2 <= s.len(), s[h] == 47, s[h + 1] == 47,
        h + 2 <= e <= s.len(), forall|i: int| h + 2 <= i < e ==> !cls(C_SQF, #[trigger] s[i]), e == s.len() || cls(C_SQF, s[e]),
    ensures lang_authority(s.subrange(h + 2, e)),
{}
/// certificate comp_uriref_hier::comp_path_noauth
#[verifier::external_body]
pub proof fn axiom_comp_path_noauth(s: Seq<u8>, h: int, k0: int, e: int)
    requires lang_uriref(s), hier_prefix(s, h), 0 <= h <= e <= s.len(), !(h + 1 < s.len() && s[h] == 47 && s[h + 1] == 47),
        forall|i: int| h <= i < e ==> !cls(C_QF, #[trigger] s[i]), e == s.len() || cls(C_QF, s[e]),
        h == 0 ==> (0 <= k0 <= s.len() && (forall|i: int| 0 <= i < k0 ==> !cls(C_CSQF, #[trigger] s[i])) && (k0 == s.len() || (cls(C_CSQF, s[k0]) && s[k0] != 58))),
    ensures lang_path(s.subrange(h, e)),
{}
/// certificate comp_uriref_hier::comp_path_auth
#[verifier::external_body]
pub proof fn axiom_comp_path_auth(s: Seq<u8>, h: int, ae: int, e: int)
    requires lang_uriref(s), hier_prefix(s, h), 0 <= h, h + 2 <= s.len(), s[h] == 47, s[h + 1] == 47,
        h + 2 <= ae <= e <= s.len(), forall|i: int| h + 2 <= i < ae ==> !cls(C_SQF, #[trigger] s[i]), ae == s.len() || cls(C_SQF, s[ae]),
        forall|i: int| ae <= i < e ==> !cls(C_QF, #[trigger] s[i]), e == s.len() || cls(C_QF, s[e]),
    ensures lang_path(s.subrange(ae, e)),
{}
/// certificate comp_uriref_query::comp_query
#[verifier::external_body]
pub proof fn axiom_comp_query(s: Seq<u8>, k: int, m: int)
    requires lang_uriref(s), 0 <= k < s.len(), s[k] == 63, forall|i: int| 0 <= i < k ==> !cls(C_QF, #[trigger] s[i]),
        k + 1 <= m <= s.len(), forall|i: int| k + 1 <= i < m ==> !cls(C_F, #[trigger] s[i]), m == s.len() || s[m] == 35,
    ensures lang_query(s.subrange(k + 1, m)),
{}
/// certificate comp_uriref_fragment::comp_frag
#[verifier::external_body]
pub proof fn axiom_comp_fragment(s: Seq<u8>, k: int)
    requires lang_uriref(s), 0 <= k < s.len(), s[k] == 35, forall|i: int| 0 <= i < k ==> !cls(C_F, #[trigger] s[i]),
    ensures lang_fragment(s.subrange(k + 1, s.len() as int)),
{}

/// the five components of the App. B decomposition are valid values of their types
pub open spec fn comps_valid(s: Seq<u8>) -> bool {
    &&& (r_scheme(s) is Some ==> lang_scheme(r_scheme(s).unwrap()))
    &&& (r_auth(s) is Some ==> lang_authority(r_auth(s).unwrap()))
    &&& lang_path(r_path(s))
    &&& (r_query(s) is Some ==> lang_query(r_query(s).unwrap()))
    &&& (r_frag(s) is Some ==> lang_fragment(r_frag(s).unwrap()))
}

/// the same, over the texts of the five values a decomposition returns
pub open spec fn parts_valid(sc: Option<Seq<u8>>, au: Option<Seq<u8>>, pa: Seq<u8>, qu: Option<Seq<u8>>, fr: Option<Seq<u8>>) -> bool {
    &&& (sc is Some ==> lang_scheme(sc.unwrap()))
    &&& (au is Some ==> lang_authority(au.unwrap()))
    &&& lang_path(pa)
    &&& (qu is Some ==> lang_query(qu.unwrap()))
    &&& (fr is Some ==> lang_fragment(fr.unwrap()))
}

/// PROVED: "each returned component is itself a valid value of its component type" for every valid URI reference
/// (hence every valid URI, which is a URI reference with the same text and decomposition)
pub proof fn lemma_uriref_components(s: Seq<u8>)
    requires lang_uriref(s),
    ensures comps_valid(s),
{
    axiom_uriref_facts(s);
    lemma_x_layout(s);
    lemma_first_of_bounds(s, 0, C_CSQF);
    let k = x_sch_end(s);
    let h = x_hier(s);
    if x_has_sch(s) { axiom_comp_scheme(s, k); }
    assert(hier_prefix(s, h));
    if x_has_auth(s) { lemma_first_of_bounds(s, h + 2, C_SQF); axiom_comp_authority(s, h, x_auth_end(s)); }
    let ae = x_auth_end(s);
    lemma_first_of_bounds(s, ae, C_QF);
    let pe = x_path_end(s);
    if x_has_auth(s) { axiom_comp_path_auth(s, h, ae, pe); } else { axiom_comp_path_noauth(s, h, k, pe); }
    lemma_qf_from_zero(s);
    lemma_first_of_bounds(s, 0, C_QF);
    if x_has_query(s) { lemma_first_of_bounds(s, pe + 1, C_F); axiom_comp_query(s, pe, x_query_end(s)); }
    if x_has_frag(s) {
        let q = x_query_end(s);
        assert forall|i: int| 0 <= i < q implies !cls(C_F, #[trigger] s[i]) by {
            if i < pe { assert(!cls(C_QF, s[i])); }
        }
        axiom_comp_fragment(s, q);
    }
}
pub proof fn lemma_uri_components(s: Seq<u8>)
    requires lang_uri(s),
    ensures comps_valid(s), r_scheme(s) is Some,
{
    axiom_uri_facts(s);
    lemma_uriref_components(s);
}

// =====================================================================================================================
// G1b: the converse - a text whose App. B pieces are valid component values is a valid URI reference - and its
// consequence for the setters (C04: "safe mutation never breaks well-formedness", URI family, on the spec level)
// =====================================================================================================================
/// certificate comp_uriref_compose::compose (literal restatement; k: end of the scheme when h == k + 1; ae == h: no authority;
/// f: end of the first path segment, used only without scheme and authority)
#[verifier::external_body]
pub proof fn axiom_compose(s: Seq<u8>, k: int, h: int, ae: int, pe: int, qe: int, f: int)
    requires
        h == 0 || (0 <= k && h == k + 1 && h <= s.len() && s[k] == 58 && lang_scheme(s.subrange(0, k))),
        0 <= h <= ae <= pe <= qe <= s.len(),
        ae == h || (h + 2 <= ae && s[h] == 47 && s[h + 1] == 47 && lang_authority(s.subrange(h + 2, ae))),
        lang_path(s.subrange(ae, pe)),
        ae > h ==> (pe == ae || s[ae] == 47),
        ae == h ==> !(h + 1 < pe && s[h] == 47 && s[h + 1] == 47),
        (ae == h && h == 0) ==> (0 <= f <= pe && (forall|i: int| 0 <= i < f ==> #[trigger] s[i] != 47 && s[i] != 58) && (f == pe || s[f] == 47)),
        qe == pe || (s[pe] == 63 && lang_query(s.subrange(pe + 1, qe))),
        qe == s.len() || (s[qe] == 35 && lang_fragment(s.subrange(qe + 1, s.len() as int))),
    ensures lang_uriref(s),
{}
/// certificate comp_uri_path_prefix::comp_path_prefix
#[verifier::external_body]
pub proof fn axiom_path_prefix(p: Seq<u8>)
    requires lang_path(p),
    ensures lang_path(make_abs(p)), lang_path(shield_dslash(p)), lang_path(shield_colon(p)),
{}

/// position of the first '/' before `to` (or `to`)
pub open spec fn first_slash(s: Seq<u8>, from: int, to: int) -> int
    decreases to - from
{
    if from >= to || from < 0 || from >= s.len() { to } else if s[from] == 47 { from } else { first_slash(s, from + 1, to) }
}
proof fn lemma_first_slash(s: Seq<u8>, from: int, to: int)
    requires 0 <= from <= to <= s.len(),
    ensures from <= first_slash(s, from, to) <= to,
        forall|i: int| from <= i < first_slash(s, from, to) ==> #[trigger] s[i] != 47,
        first_slash(s, from, to) == to || s[first_slash(s, from, to)] == 47,
    decreases to - from
{
    if from < to && s[from] != 47 { lemma_first_slash(s, from + 1, to); }
}

/// PROVED (decomposition theorem, converse half): the App. B decomposition of ANY text satisfies the context conditions by
/// construction, so valid pieces are enough
pub proof fn lemma_uriref_compose(s: Seq<u8>)
    requires comps_valid(s),
    ensures lang_uriref(s),
{
    lemma_x_layout(s);
    lemma_first_of_bounds(s, 0, C_CSQF);
    let k = x_sch_end(s);
    let h = x_hier(s);
    if x_has_auth(s) { lemma_first_of_bounds(s, h + 2, C_SQF); }
    let ae = x_auth_end(s);
    lemma_first_of_bounds(s, ae, C_QF);
    let pe = x_path_end(s);
    if x_has_query(s) { lemma_first_of_bounds(s, pe + 1, C_F); }
    let qe = x_query_end(s);
    let f = first_slash(s, 0, pe);
    if ae == h && h == 0 {
        lemma_first_slash(s, 0, pe);
        assert forall|i: int| 0 <= i < f implies #[trigger] s[i] != 47 && s[i] != 58 by {
            if s[i] == 58 {
                // the first of : / ? # comes no later than i, is not ':' (no scheme), hence '/', '?' or '#': impossible before f <= pe
                assert(cls(C_CSQF, s[i]));
                assert(k <= i);
                assert(k < s.len() && cls(C_CSQF, s[k]) && s[k] != 58);
                if s[k] == 47 { assert(k < f); } else { assert(cls(C_QF, s[k])); assert(k < pe); }
            }
        }
    }
    if ae > h && pe > ae { assert(!cls(C_QF, s[ae])); assert(cls(C_SQF, s[ae])); }
    axiom_compose(s, k, h, ae, pe, qe, f);
}
/// the decomposition theorem for URI references
pub proof fn lemma_uriref_iff_components(s: Seq<u8>)
    ensures lang_uriref(s) <==> comps_valid(s),
{
    if lang_uriref(s) { lemma_uriref_components(s); }
    if comps_valid(s) { lemma_uriref_compose(s); }
}

/// PROVED: a text that reads back as five valid pieces is a valid URI reference - applies to the postcondition of every
/// component setter (set_post, C05)
pub proof fn lemma_set_post_valid(o: Seq<u8>, n: Seq<u8>, sch: Option<Seq<u8>>, au: Option<Seq<u8>>, p: Seq<u8>, q: Option<Seq<u8>>, f: Option<Seq<u8>>)
    requires set_post(o, n, sch, au, p, q, f), parts_valid(sch, au, p, q, f),
    ensures lang_uriref(n),
{
    lemma_uriref_compose(n);
}
/// C04 for the five setters of a URI reference: with a valid old text and a valid argument the new text is valid.
/// Each hypothesis `set_post(..)` is literally the proved postcondition of the setter (contracts/reference.vspec).
pub proof fn lemma_set_scheme_valid(o: Seq<u8>, n: Seq<u8>, ns: Option<Seq<u8>>)
    requires lang_uriref(o), ns is Some ==> lang_scheme(ns.unwrap()),
        set_post(o, n, ns, r_auth(o), (if ns is None && r_auth(o) is None && first_seg_has_colon(r_path(o)) { shield_colon(r_path(o)) } else { r_path(o) }), r_query(o), r_frag(o)),
    ensures lang_uriref(n),
{
    lemma_uriref_components(o);
    axiom_path_prefix(r_path(o));
    lemma_uriref_compose(n);
}
pub proof fn lemma_set_authority_valid(o: Seq<u8>, n: Seq<u8>, na: Option<Seq<u8>>)
    requires lang_uriref(o), na is Some ==> lang_authority(na.unwrap()),
        set_post(o, n, r_scheme(o), na, set_auth_path(r_auth(o), na is Some, r_path(o)), r_query(o), r_frag(o)),
    ensures lang_uriref(n),
{
    lemma_uriref_components(o);
    axiom_path_prefix(r_path(o));
    lemma_uriref_compose(n);
}
pub proof fn lemma_set_path_valid(o: Seq<u8>, n: Seq<u8>, np: Seq<u8>)
    requires lang_uriref(o), lang_path(np),
        set_post(o, n, r_scheme(o), r_auth(o), fit_path(r_scheme(o), r_auth(o), np), r_query(o), r_frag(o)),
    ensures lang_uriref(n),
{
    lemma_uriref_components(o);
    axiom_path_prefix(np);
    lemma_uriref_compose(n);
}
pub proof fn lemma_set_query_valid(o: Seq<u8>, n: Seq<u8>, nq: Option<Seq<u8>>)
    requires lang_uriref(o), nq is Some ==> lang_query(nq.unwrap()),
        set_post(o, n, r_scheme(o), r_auth(o), r_path(o), nq, r_frag(o)),
    ensures lang_uriref(n),
{
    lemma_uriref_components(o);
    lemma_uriref_compose(n);
}
pub proof fn lemma_set_fragment_valid(o: Seq<u8>, n: Seq<u8>, nf: Option<Seq<u8>>)
    requires lang_uriref(o), nf is Some ==> lang_fragment(nf.unwrap()),
        set_post(o, n, r_scheme(o), r_auth(o), r_path(o), r_query(o), nf),
    ensures lang_uriref(n),
{
    lemma_uriref_components(o);
    lemma_uriref_compose(n);
}
} // verus!
