// G1a: every component of a valid URI reference is a valid value of its component type (URI family).
// The facts are proved as Verus-checked certificates over the RFC reference automata (tools/complemmas.py: scan regions,
// product relations, end conditions, induction over the text - the same automata C01 proves the generated validators
// equal to). Here each certificate theorem is restated LITERALLY (same hypotheses, positions as explicit parameters) as a
// named axiom over the uninterpreted language predicates, and the link to the App. B decomposition (x_* / r_*) is PROVED.
verus! {
/// membership of a text in the RFC 3986 productions scheme / authority / path / query / fragment
pub uninterp spec fn lang_scheme(s: Seq<u8>) -> bool;
pub uninterp spec fn lang_authority(s: Seq<u8>) -> bool;
pub uninterp spec fn lang_path(s: Seq<u8>) -> bool;
pub uninterp spec fn lang_query(s: Seq<u8>) -> bool;
pub uninterp spec fn lang_fragment(s: Seq<u8>) -> bool;

/// position h is where the hierarchical part starts: 0, or right after the ':' that closes a scheme candidate
pub open spec fn hier_prefix(s: Seq<u8>, h: int) -> bool {
    h == 0 || (0 < h <= s.len() && s[h - 1] == 58 && forall|i: int| 0 <= i < h - 1 ==> !cls(C_CSQF, #[trigger] s[i]))
}

/// certificate comp_uriref_scheme::comp_scheme
#[verifier::external_body]
pub proof fn axiom_comp_scheme(s: Seq<u8>, k: int)
    requires lang_uriref(s), 0 <= k < s.len(), s[k] == 58, forall|i: int| 0 <= i < k ==> !cls(C_CSQF, #[trigger] s[i]),
    ensures lang_scheme(s.subrange(0, k)),
{}
/// certificate comp_uriref_hier::comp_authority
#[verifier::external_body]
pub proof fn axiom_comp_authority(s: Seq<u8>, h: int, e: int)
    requires lang_uriref(s), hier_prefix(s, h), 0 <= h, h + 2 <= s.len(), s[h] == 47, s[h + 1] == 47,
        h + 2 <= e <= s.len(), forall|i: int| h + 2 <= i < e ==> !cls(C_SQF, #[trigger] s[i]), e == s.len() || cls(C_SQF, s[e]),
    ensures lang_authority(s.subrange(h + 2, e)),
{}
/// certificate comp_uriref_hier::comp_path_noauth
#[verifier::external_body]
pub proof fn axiom_comp_path_noauth(s: Seq<u8>, h: int, k0: int, e: int)
    requires lang_uriref(s), hier_prefix(s, h), 0 <= h <= e <= s.len(), !(h + 1 < s.len() && s[h] == 47 && s[h + 1] == 47),
        forall|i: int| h <= i < e ==> !cls(C_QF, #[trigger] s[i]), e == s.len() || cls(C_QF, s[e]),
        h == 0 ==> (0 <= k0 <= s.len() && (forall|i: int| 0 <= i < k0 ==> !cls(C_CSQF, #[trigger] s[i])) && (k0 == s.len() || (cls(C_CSQF, s[k0]) && s[k0] != 58))),
    ensures lang_path(s.subrange(h, e)),
{}
/// certificate comp_uriref_hier::comp_path_auth
#[verifier::external_body]
pub proof fn axiom_comp_path_auth(s: Seq<u8>, h: int, ae: int, e: int)
    requires lang_uriref(s), hier_prefix(s, h), 0 <= h, h + 2 <= s.len(), s[h] == 47, s[h + 1] == 47,
        h + 2 <= ae <= e <= s.len(), forall|i: int| h + 2 <= i < ae ==> !cls(C_SQF, #[trigger] s[i]), ae == s.len() || cls(C_SQF, s[ae]),
        forall|i: int| ae <= i < e ==> !cls(C_QF, #[trigger] s[i]), e == s.len() || cls(C_QF, s[e]),
    ensures lang_path(s.subrange(ae, e)),
{}
/// certificate comp_uriref_query::comp_query
#[verifier::external_body]
pub proof fn axiom_comp_query(s: Seq<u8>, k: int, m: int)
    requires lang_uriref(s), 0 <= k < s.len(), s[k] == 63, forall|i: int| 0 <= i < k ==> !cls(C_QF, #[trigger] s[i]),
        k + 1 <= m <= s.len(), forall|i: int| k + 1 <= i < m ==> !cls(C_F, #[trigger] s[i]), m == s.len() || s[m] == 35,
    ensures lang_query(s.subrange(k + 1, m)),
{}
/// certificate comp_uriref_fragment::comp_frag
#[verifier::external_body]
pub proof fn axiom_comp_fragment(s: Seq<u8>, k: int)
    requires lang_uriref(s), 0 <= k < s.len(), s[k] == 35, forall|i: int| 0 <= i < k ==> !cls(C_F, #[trigger] s[i]),
    ensures lang_fragment(s.subrange(k + 1, s.len() as int)),
{}

/// the five components of the App. B decomposition are valid values of their types
pub open spec fn comps_valid(s: Seq<u8>) -> bool {
    &&& (r_scheme(s) is Some ==> lang_scheme(r_scheme(s).unwrap()))
    &&& (r_auth(s) is Some ==> lang_authority(r_auth(s).unwrap()))
    &&& lang_path(r_path(s))
    &&& (r_query(s) is Some ==> lang_query(r_query(s).unwrap()))
    &&& (r_frag(s) is Some ==> lang_fragment(r_frag(s).unwrap()))
}

/// the same, over the texts of the five values a decomposition returns
pub open spec fn parts_valid(sc: Option<Seq<u8>>, au: Option<Seq<u8>>, pa: Seq<u8>, qu: Option<Seq<u8>>, fr: Option<Seq<u8>>) -> bool {
    &&& (sc is Some ==> lang_scheme(sc.unwrap()))
    &&& (au is Some ==> lang_authority(au.unwrap()))
    &&& lang_path(pa)
    &&& (qu is Some ==> lang_query(qu.unwrap()))
    &&& (fr is Some ==> lang_fragment(fr.unwrap()))
}

/// PROVED: "each returned component is itself a valid value of its component type" for every valid URI reference
/// (hence every valid URI, which is a URI reference with the same text and decomposition)
pub proof fn lemma_uriref_components(s: Seq<u8>)
    requires lang_uriref(s),
    ensures comps_valid(s),
{
    axiom_uriref_facts(s);
    lemma_x_layout(s);
    lemma_first_of_bounds(s, 0, C_CSQF);
    let k = x_sch_end(s);
    let h = x_hier(s);
    if x_has_sch(s) { axiom_comp_scheme(s, k); }
    assert(hier_prefix(s, h));
    if x_has_auth(s) { lemma_first_of_bounds(s, h + 2, C_SQF); axiom_comp_authority(s, h, x_auth_end(s)); }
    let ae = x_auth_end(s);
    lemma_first_of_bounds(s, ae, C_QF);
    let pe = x_path_end(s);
    if x_has_auth(s) { axiom_comp_path_auth(s, h, ae, pe); } else { axiom_comp_path_noauth(s, h, k, pe); }
    lemma_qf_from_zero(s);
    lemma_first_of_bounds(s, 0, C_QF);
    if x_has_query(s) { lemma_first_of_bounds(s, pe + 1, C_F); axiom_comp_query(s, pe, x_query_end(s)); }
    if x_has_frag(s) {
        let q = x_query_end(s);
        assert forall|i: int| 0 <= i < q implies !cls(C_F, #[trigger] s[i]) by {
            if i < pe { assert(!cls(C_QF, s[i])); }
        }
        axiom_comp_fragment(s, q);
    }
}
pub proof fn lemma_uri_components(s: Seq<u8>)
    requires lang_uri(s),
    ensures comps_valid(s), r_scheme(s) is Some,
{
    axiom_uri_facts(s);
    lemma_uriref_components(s);
}
} // verus!
