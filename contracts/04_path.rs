// Paths as positions: the '/'-split of a path text `p` (DESIGN.md 4.1, C12).
verus! {

/// type invariant of paths: no '?' and no '#'
pub open spec fn path_shape(p: Seq<u8>) -> bool { forall|j: int| 0 <= j < p.len() ==> !cls(C_QF, #[trigger] p[j]) }

pub open spec fn p_is_abs(p: Seq<u8>) -> bool { p.len() > 0 && p[0] == 47 }
/// "" and "/" have no segments
pub open spec fn p_is_empty(p: Seq<u8>) -> bool { p.len() == 0 || (p.len() == 1 && p[0] == 47) }
pub open spec fn p_first_off(p: Seq<u8>) -> int { if p_is_abs(p) { 1 } else { 0 } }

/// `o` is the start of one of the '/'-separated pieces (after the optional leading '/')
pub open spec fn is_seg_start(p: Seq<u8>, o: int) -> bool {
    !p_is_empty(p) && p_first_off(p) <= o <= p.len() && (o == p_first_off(p) || p[o - 1] == 47)
}
/// end (exclusive) of the piece starting at o
pub open spec fn seg_end(p: Seq<u8>, o: int) -> int { first_of(p, o, C_SLASH) }
/// start of the next piece, or len + 1 after the last one
pub open spec fn seg_next(p: Seq<u8>, o: int) -> int { seg_end(p, o) + 1 }
/// start of the piece that ends at position e (e = index of its terminating '/' or p.len())
pub open spec fn seg_start_of(p: Seq<u8>, fo: int, e: int) -> int
    decreases e
{
    if e <= fo || e <= 0 { fo } else if p[e - 1] == 47 { e } else { seg_start_of(p, fo, e - 1) }
}
/// start of the piece preceding the one that starts at `o` (o may be len + 1 = "past the end")
pub open spec fn seg_prev(p: Seq<u8>, o: int) -> int { seg_start_of(p, p_first_off(p), o - 1) }

pub proof fn lemma_sqf_is_slash(p: Seq<u8>, o: int)
    requires path_shape(p), 0 <= o <= p.len(),
    ensures first_of(p, o, C_SQF) == first_of(p, o, C_SLASH),
    decreases p.len() - o
{
    if o < p.len() && !cls(C_SQF, p[o]) { lemma_sqf_is_slash(p, o + 1); }
}

/// properties of seg_start_of: it is a piece start, nothing between it and e is a '/', so the
/// piece starting there ends exactly at e
pub proof fn lemma_seg_start_of(p: Seq<u8>, fo: int, e: int)
    requires 0 <= fo <= e <= p.len(),
    ensures
        fo <= seg_start_of(p, fo, e) <= e,
        seg_start_of(p, fo, e) == fo || p[seg_start_of(p, fo, e) - 1] == 47,
        forall|j: int| seg_start_of(p, fo, e) <= j < e ==> #[trigger] p[j] != 47,
    decreases e
{
    if e <= fo || e <= 0 { } else if p[e - 1] == 47 { } else { lemma_seg_start_of(p, fo, e - 1); }
}

/// going back from a piece start (or from the end marker) and forward again is the identity,
/// and the previous piece start is a piece start
pub proof fn lemma_prev_next(p: Seq<u8>, o: int)
    requires !p_is_empty(p), p_first_off(p) < o <= p.len() + 1, o == p.len() + 1 || p[o - 1] == 47,
    ensures
        is_seg_start(p, seg_prev(p, o)),
        seg_next(p, seg_prev(p, o)) == o,
        seg_prev(p, o) < o,
{
    let fo = p_first_off(p);
    lemma_seg_start_of(p, fo, o - 1);
    let s = seg_prev(p, o);
    lemma_first_of_is(p, s, C_SLASH, o - 1);
}

/// the next piece start after a piece start is a piece start or the end marker, and going back
/// from it returns to where we were
pub proof fn lemma_next_prev(p: Seq<u8>, o: int)
    requires is_seg_start(p, o),
    ensures
        o < seg_next(p, o) <= p.len() + 1,
        seg_next(p, o) <= p.len() ==> is_seg_start(p, seg_next(p, o)),
        seg_prev(p, seg_next(p, o)) == o,
{
    lemma_first_of_bounds(p, o, C_SLASH);
    let e = seg_end(p, o);
    lemma_back_to(p, p_first_off(p), o, e);
}

pub proof fn lemma_back_to(p: Seq<u8>, fo: int, o: int, e: int)
    requires 0 <= fo <= o <= e <= p.len(), o == fo || p[o - 1] == 47,
             forall|j: int| o <= j < e ==> #[trigger] p[j] != 47,
    ensures seg_start_of(p, fo, e) == o,
    decreases e - o
{
    if e > o { lemma_back_to(p, fo, o, e - 1); }
}

/// two piece starts a < b: the next after a is <= b, and the previous before b is >= a
/// (pieces are consumed from both ends without overlap)
pub proof fn lemma_between(p: Seq<u8>, a: int, b: int)
    requires is_seg_start(p, a), a < b <= p.len() + 1, b == p.len() + 1 || p[b - 1] == 47,
    ensures seg_next(p, a) <= b, seg_prev(p, b) >= a,
{
    lemma_first_of_bounds(p, a, C_SLASH);
    // first '/' at or after a is at most b - 1
    if b <= p.len() {
        lemma_first_of_le(p, a, C_SLASH, b - 1);
    }
    let fo = p_first_off(p);
    lemma_seg_start_of(p, fo, b - 1);
    let s = seg_prev(p, b);
    if s < a {
        // then a - 1 is a '/' inside [s, b-1): contradiction with "no '/' between s and b-1"
        assert(a > fo);
        assert(p[a - 1] == 47);
    }
}

pub proof fn lemma_first_of_le(s: Seq<u8>, from: int, c: int, k: int)
    requires 0 <= from <= k < s.len(), cls(c, s[k]),
    ensures first_of(s, from, c) <= k,
    decreases k - from
{
    if from < k && !cls(c, s[from]) { lemma_first_of_le(s, from + 1, c, k); }
}

} // verus!

verus! {
/// end of the directory part: just after the last '/', or 0 when there is none
pub open spec fn dir_end(p: Seq<u8>) -> int { seg_start_of(p, 0, p.len() as int) }
} // verus!
