// Path editing (C10): exact result texts of push / pop / clear as functions of the old path text.
verus! {

/// a segment: no '/', '?', '#'
pub open spec fn seg_shape(s: Seq<u8>) -> bool { no_cls(s, C_SQF) }
pub open spec fn is_dotdot(s: Seq<u8>) -> bool { s.len() == 2 && s[0] == 46 && s[1] == 46 }
pub open spec fn is_dot(s: Seq<u8>) -> bool { s.len() == 1 && s[0] == 46 }
pub open spec fn has_colon(s: Seq<u8>) -> bool { first_of(s, 0, C_CS) < s.len() && s[first_of(s, 0, C_CS)] == 58 }
/// the last '/'-separated piece of a non-empty path
pub open spec fn last_seg(p: Seq<u8>) -> Seq<u8> { p.subrange(seg_prev(p, p.len() as int + 1), p.len() as int) }
pub open spec fn is_shield3(p: Seq<u8>) -> bool { p.len() == 3 && p[0] == 47 && p[1] == 46 && p[2] == 47 }   // "/./"

/// text after push(seg): `fa` = the path follows an authority, `at0` = the path starts the buffer
/// (no scheme, no authority in front of it)
pub open spec fn push_text(p: Seq<u8>, seg: Seq<u8>, fa: bool, at0: bool) -> Seq<u8> {
    push_text0(if fa && !at0 && p.len() == 0 { sq1(47) } else { p }, seg, fa, at0)
}
#[verifier::opaque]
pub open spec fn push_text0(p: Seq<u8>, seg: Seq<u8>, fa: bool, at0: bool) -> Seq<u8> {
    if p_is_empty(p) {
        if (at0 && has_colon(seg)) || seg.len() == 0 { p + sq2(46, 47) + seg } else { p + seg }
    } else if fa && is_shield3(p) { sq2(47, 47) + seg }
    else { p + sq1(47) + seg }
}
/// where pop cuts a non-empty path: just before the last '/' that follows the first segment
/// offset, or at the first segment offset
pub open spec fn pop_cut(p: Seq<u8>) -> int {
    let fo = p_first_off(p);
    let st = seg_start_of(p, fo, p.len() as int);
    if st > fo { st - 1 } else { fo }
}
pub open spec fn pop_text(p: Seq<u8>, fa: bool, at0: bool) -> Seq<u8> {
    if (p_is_empty(p) && !p_is_abs(p)) || (!p_is_empty(p) && is_dotdot(last_seg(p))) { push_text(p, sq2(46, 46), fa, at0) }
    else if !p_is_empty(p) { p.subrange(0, pop_cut(p)) }
    else { p }
}
pub open spec fn clear_text(p: Seq<u8>) -> Seq<u8> { p.subrange(0, p_first_off(p)) }

} // verus!
verus! {
pub proof fn lemma_cs_is_csqf_seg(s: Seq<u8>)
    requires seg_shape(s),
    ensures has_colon(s) == first_seg_has_colon(s),
{
    reveal(path_fits); reveal(emb_fits);
    assert(path_shape(s));
    lemma_cs_is_csqf(s, 0);
}
/// the pushed text is still a path text
pub proof fn lemma_push_shape(p: Seq<u8>, seg: Seq<u8>, fa: bool, at0: bool)
    requires path_shape(p), seg_shape(seg),
    ensures path_shape(push_text(p, seg, fa, at0)),
{
    reveal(path_fits); reveal(emb_fits);
    let p0 = if fa && !at0 && p.len() == 0 { sq1(47) } else { p };
    lemma_push_shape0(p0, seg, fa, at0);
}
pub proof fn lemma_push_shape0(p: Seq<u8>, seg: Seq<u8>, fa: bool, at0: bool)
    requires path_shape(p), seg_shape(seg),
    ensures path_shape(push_text0(p, seg, fa, at0)),
{
    reveal(path_fits); reveal(emb_fits);
    reveal(push_text0); reveal(push_buf0);
    let r = push_text0(p, seg, fa, at0);
    assert forall|j: int| 0 <= j < r.len() implies !cls(C_QF, #[trigger] r[j]) by {
        if p_is_empty(p) {
            if (at0 && has_colon(seg)) || seg.len() == 0 {
                if j < p.len() { assert(r[j] == p[j]); } else if j < p.len() + 2 { } else { assert(r[j] == seg[j - p.len() - 2]); }
            } else {
                if j < p.len() { assert(r[j] == p[j]); } else { assert(r[j] == seg[j - p.len()]); }
            }
        } else if fa && is_shield3(p) {
            if j >= 2 { assert(r[j] == seg[j - 2]); }
        } else {
            if j < p.len() { assert(r[j] == p[j]); } else if j == p.len() { } else { assert(r[j] == seg[j - p.len() - 1]); }
        }
    }
}
} // verus!

verus! {
pub open spec fn sym_push_text(p: Seq<u8>, seg: Seq<u8>, fa: bool, at0: bool) -> Seq<u8> {
    if is_dot(seg) { p }
    else if is_dotdot(seg) { pop_text(p, fa, at0) }
    else if seg.len() > 0 || !p_is_empty(p) { push_text(p, seg, fa, at0) }
    else { p }
}
/// TRUSTED: the two segment constants every implementation provides (".." and "")
#[verifier::external_body]
pub proof fn axiom_segment_consts<S: ?Sized + crate::common::SegmentImpl>()
    ensures bytes_of(S::PARENT) == sq2(46, 46), bytes_of(S::EMPTY) == sq0(), seg_shape(sq2(46, 46)), seg_shape(sq0()),
{ }
} // verus!
verus! {
/// the buffer after push, as one splice of the old buffer
pub open spec fn push_buf(o: Seq<u8>, lo: int, hi: int, sg: Seq<u8>, fa: bool) -> Seq<u8> {
    if fa && lo > 0 && lo == hi { push_buf0(splice(o, hi, hi, sq1(47)), lo, hi + 1, sg, fa) } else { push_buf0(o, lo, hi, sg, fa) }
}
#[verifier::opaque]
pub open spec fn push_buf0(o: Seq<u8>, lo: int, hi: int, sg: Seq<u8>, fa: bool) -> Seq<u8> {
    let p = o.subrange(lo, hi);
    if p_is_empty(p) {
        if (lo == 0 && has_colon(sg)) || sg.len() == 0 { splice(o, hi, hi, sq2(46, 47) + sg) } else { splice(o, hi, hi, sg) }
    } else if fa && is_shield3(p) { splice(o, hi - 2, hi, sq1(47) + sg) }
    else { splice(o, hi, hi, sq1(47) + sg) }
}
pub proof fn lemma_push_buf(o: Seq<u8>, lo: int, hi: int, sg: Seq<u8>, fa: bool)
    requires 0 <= lo <= hi <= o.len(),
    ensures ({
        let n = push_buf(o, lo, hi, sg, fa);
        let np = push_text(o.subrange(lo, hi), sg, fa, lo == 0);
        &&& n.len() == o.len() - (hi - lo) + np.len()
        &&& n.subrange(0, lo) =~= o.subrange(0, lo)
        &&& n.subrange(lo + np.len(), n.len() as int) =~= o.subrange(hi, o.len() as int)
        &&& n.subrange(lo, lo + np.len()) =~= np
    }),
{
    reveal(path_fits); reveal(emb_fits);
    if fa && lo > 0 && lo == hi {
        let o1 = splice(o, hi, hi, sq1(47));
        lemma_push_buf0(o1, lo, hi + 1, sg, fa);
        assert(o1.subrange(lo, hi + 1) =~= sq1(47));
        assert(o.subrange(lo, hi) =~= sq0());
        assert(o1.subrange(0, lo) =~= o.subrange(0, lo));
        assert(o1.subrange(hi + 1, o1.len() as int) =~= o.subrange(hi, o.len() as int));
    } else {
        lemma_push_buf0(o, lo, hi, sg, fa);
    }
}
pub proof fn lemma_push_buf0(o: Seq<u8>, lo: int, hi: int, sg: Seq<u8>, fa: bool)
    requires 0 <= lo <= hi <= o.len(),
    ensures ({
        let n = push_buf0(o, lo, hi, sg, fa);
        let np = push_text0(o.subrange(lo, hi), sg, fa, lo == 0);
        &&& n.len() == o.len() - (hi - lo) + np.len()
        &&& n.subrange(0, lo) =~= o.subrange(0, lo)
        &&& n.subrange(lo + np.len(), n.len() as int) =~= o.subrange(hi, o.len() as int)
        &&& n.subrange(lo, lo + np.len()) =~= np
    }),
{
    reveal(path_fits); reveal(emb_fits);
    reveal(push_text0); reveal(push_buf0);
    let p = o.subrange(lo, hi);
    let n = push_buf0(o, lo, hi, sg, fa);
    assert(o.subrange(hi, hi) =~= sq0());
    if p_is_empty(p) {
        if (lo == 0 && has_colon(sg)) || sg.len() == 0 { lemma_window_splice(o, lo, hi, hi, hi, sq2(46, 47) + sg, n); }
        else { lemma_window_splice(o, lo, hi, hi, hi, sg, n); }
    } else if fa && is_shield3(p) {
        lemma_window_splice(o, lo, hi - 2, hi, hi, sq1(47) + sg, n);
        assert(o.subrange(lo, hi - 2) =~= sq1(47));
    } else {
        lemma_window_splice(o, lo, hi, hi, hi, sq1(47) + sg, n);
    }
}
} // verus!
verus! {
/// the path text is unambiguous where it sits: fa = follows an authority, at0 = starts the buffer
/// (embedded handles have fa ==> !at0; a stand-alone path buffer has at0 && fa, where nothing
/// is required beyond being a path)
#[verifier::opaque]
pub open spec fn emb_fits(p: Seq<u8>, fa: bool, at0: bool) -> bool {
    &&& path_shape(p)
    &&& (fa && !at0 ==> p.len() == 0 || p[0] == 47)
    &&& (!fa ==> !starts_dslash(p))
    &&& (at0 && !fa ==> !first_seg_has_colon(p))
}

pub proof fn lemma_push_fits(p: Seq<u8>, sg: Seq<u8>, fa: bool, at0: bool)
    requires emb_fits(p, fa, at0), seg_shape(sg),
    ensures emb_fits(push_text(p, sg, fa, at0), fa, at0),
{
    reveal(path_fits); reveal(emb_fits);
    reveal(push_text0); reveal(push_buf0);
    lemma_push_shape(p, sg, fa, at0);
    lemma_cs_is_csqf_seg(sg);
    let p0 = if fa && !at0 && p.len() == 0 { sq1(47) } else { p };
    let r = push_text(p, sg, fa, at0);
    assert(r == push_text0(p0, sg, fa, at0));
    if p_is_empty(p0) {
        if (at0 && has_colon(sg)) || sg.len() == 0 {
            assert(r =~= p0 + sq2(46, 47) + sg);
            if p0.len() == 0 { assert(r[0] == 46 && r[1] == 47); assert(first_of(r, 0, C_CSQF) == first_of(r, 1, C_CSQF)); }
            else { assert(r[0] == 47 && r[1] == 46); }
        } else {
            assert(r =~= p0 + sg);
            if p0.len() == 0 {
                if at0 && !fa { assert(r =~= sg); }
                if sg.len() >= 2 { assert(r[0] == sg[0]); }
            } else { assert(r[0] == 47 && r[1] == sg[0]); }
        }
    } else if fa && is_shield3(p0) {
        assert(r[0] == 47);
    } else {
        assert(r =~= p0 + sq1(47) + sg);
        assert(r[0] == p0[0]);
        if p0.len() >= 2 { assert(r[1] == p0[1]); } else { assert(r[1] == 47); }
        if at0 && !fa {
            // same first ':' '/' '?' '#' as in p0
            lemma_first_of_bounds(p0, 0, C_CSQF);
            let k = first_of(p0, 0, C_CSQF);
            assert forall|j: int| 0 <= j < k implies !cls(C_CSQF, #[trigger] r[j]) by { assert(r[j] == p0[j]); }
            if k < p0.len() { assert(r[k] == p0[k]); } else { assert(r[k] == 47); }
            lemma_first_of_is(r, 0, C_CSQF, k);
        }
    }
}

/// editing the path of a reference in place: the other four components are untouched
pub proof fn lemma_path_edit_ref(o: Seq<u8>, np: Seq<u8>)
    requires ref_shape(o), emb_fits(np, x_has_auth(o), x_auth_end(o) == 0), x_has_auth(o) ==> x_auth_end(o) > 0,
    ensures set_post(o, o.subrange(0, x_auth_end(o)) + np + o.subrange(x_path_end(o), o.len() as int),
                     r_scheme(o), r_auth(o), np, r_query(o), r_frag(o)),
{
    reveal(path_fits); reveal(emb_fits);
    lemma_ref_pieces(o);
    lemma_x_parts_is_rfc(o);
    lemma_first_of_bounds(o, 0, C_CSQF);
    let ae = x_auth_end(o); let pe = x_path_end(o);
    let n = o.subrange(0, ae) + np + o.subrange(pe, o.len() as int);
    assert(o.subrange(0, ae) =~= o.subrange(0, x_hier(o)) + o.subrange(x_hier(o), ae));
    assert(o.subrange(pe, o.len() as int) =~= o.subrange(pe, x_query_end(o)) + o.subrange(x_query_end(o), o.len() as int));
    assert(n =~= opt_prefix(r_scheme(o), 58) + opt_auth(r_auth(o)) + np + opt_suffix(63, r_query(o)) + opt_suffix(35, r_frag(o)));
    lemma_set_pieces(o, n, r_scheme(o), r_auth(o), np, r_query(o), r_frag(o));
}
} // verus!
verus! {
pub proof fn lemma_prefix_fits(p: Seq<u8>, cut: int, fa: bool, at0: bool)
    requires emb_fits(p, fa, at0), p_first_off(p) <= cut <= p.len(), cut == p_first_off(p) || (cut < p.len() && p[cut] == 47),
    ensures emb_fits(p.subrange(0, cut), fa, at0),
{
    reveal(path_fits); reveal(emb_fits);
    let r = p.subrange(0, cut);
    assert(forall|j: int| 0 <= j < r.len() ==> #[trigger] r[j] == p[j]);
    if at0 && !fa {
        lemma_first_of_bounds(p, 0, C_CSQF);
        lemma_first_of_bounds(r, 0, C_CSQF);
        let k = first_of(r, 0, C_CSQF);
        if k < r.len() && r[k] == 58 {
            assert forall|j: int| 0 <= j < k implies !cls(C_CSQF, #[trigger] p[j]) by { assert(r[j] == p[j]); }
            lemma_first_of_is(p, 0, C_CSQF, k);
        }
    }
}
pub proof fn lemma_pop_fits(p: Seq<u8>, fa: bool, at0: bool)
    requires emb_fits(p, fa, at0),
    ensures emb_fits(pop_text(p, fa, at0), fa, at0),
{
    reveal(path_fits); reveal(emb_fits);
    if (p_is_empty(p) && !p_is_abs(p)) || (!p_is_empty(p) && is_dotdot(last_seg(p))) {
        assert(seg_shape(sq2(46, 46)));
        lemma_push_fits(p, sq2(46, 46), fa, at0);
    } else if !p_is_empty(p) {
        let fo = p_first_off(p);
        lemma_seg_start_of(p, fo, p.len() as int);
        lemma_prefix_fits(p, pop_cut(p), fa, at0);
    }
}
pub proof fn lemma_clear_fits(p: Seq<u8>, fa: bool, at0: bool)
    requires emb_fits(p, fa, at0),
    ensures emb_fits(clear_text(p), fa, at0),
{
    reveal(path_fits); reveal(emb_fits);
    lemma_prefix_fits(p, p_first_off(p), fa, at0);
}
pub proof fn lemma_sym_push_fits(p: Seq<u8>, sg: Seq<u8>, fa: bool, at0: bool)
    requires emb_fits(p, fa, at0), seg_shape(sg),
    ensures emb_fits(sym_push_text(p, sg, fa, at0), fa, at0),
{
    reveal(path_fits); reveal(emb_fits);
    if is_dot(sg) { } else if is_dotdot(sg) { lemma_pop_fits(p, fa, at0); }
    else if sg.len() > 0 || !p_is_empty(p) { lemma_push_fits(p, sg, fa, at0); }
}
} // verus!
verus! {
/// a buffer `n` obtained from a reference text `o` by rewriting only its path window, the new
/// path being unambiguous in its context, decomposes into the same scheme / authority / query /
/// fragment and the new path
pub proof fn lemma_path_edited(o: Seq<u8>, n: Seq<u8>)
    requires ref_shape(o),
        n.len() >= o.len() - (x_path_end(o) - x_auth_end(o)),
        n.subrange(0, x_auth_end(o)) == o.subrange(0, x_auth_end(o)),
        n.subrange(n.len() - (o.len() - x_path_end(o)), n.len() as int) == o.subrange(x_path_end(o), o.len() as int),
        emb_fits(n.subrange(x_auth_end(o), n.len() - (o.len() - x_path_end(o))), x_has_auth(o), x_auth_end(o) == 0),
    ensures set_post(o, n, r_scheme(o), r_auth(o), n.subrange(x_auth_end(o), n.len() - (o.len() - x_path_end(o))), r_query(o), r_frag(o)),
{
    reveal(path_fits); reveal(emb_fits);
    lemma_x_layout(o);
    let ae = x_auth_end(o); let pe = x_path_end(o);
    let np = n.subrange(ae, n.len() - (o.len() - pe));
    if x_has_auth(o) { assert(ae > 0); }
    lemma_path_edit_ref(o, np);
    assert(n =~= o.subrange(0, ae) + np + o.subrange(pe, o.len() as int));
}
} // verus!
verus! {
/// symbolic_append: fold of symbolic_push over the yielded segments, then an empty segment if the
/// last one was a dot segment ("open") and the path is not empty
pub open spec fn sym_fold(p: Seq<u8>, l: Seq<Seq<u8>>, fa: bool, at0: bool) -> (Seq<u8>, bool)
    decreases l.len()
{
    if l.len() == 0 { (p, false) }
    else {
        let r = sym_fold(p, l.drop_last(), fa, at0);
        (sym_push_text(r.0, l.last(), fa, at0), is_dot(l.last()) || is_dotdot(l.last()))
    }
}
pub open spec fn sym_append_text(p: Seq<u8>, l: Seq<Seq<u8>>, fa: bool, at0: bool) -> Seq<u8> {
    let r = sym_fold(p, l, fa, at0);
    if r.1 && !p_is_empty(r.0) { push_text(r.0, sq0(), fa, at0) } else { r.0 }
}
pub proof fn lemma_sym_fold_push(p: Seq<u8>, l: Seq<Seq<u8>>, s: Seq<u8>, fa: bool, at0: bool)
    ensures sym_fold(p, l.push(s), fa, at0) == (sym_push_text(sym_fold(p, l, fa, at0).0, s, fa, at0), is_dot(s) || is_dotdot(s)),
{
    reveal(path_fits); reveal(emb_fits);
    assert(l.push(s).drop_last() =~= l);
}
/// lengths: a symbolic push adds at most |segment| + 5 bytes
pub proof fn lemma_sym_push_len(p: Seq<u8>, s: Seq<u8>, fa: bool, at0: bool)
    ensures sym_push_text(p, s, fa, at0).len() <= p.len() + s.len() + 5,
{
    reveal(path_fits); reveal(emb_fits);
    reveal(push_text0);
    if is_dotdot(s) && !p_is_empty(p) {
        lemma_seg_start_of(p, p_first_off(p), p.len() as int);
    }
}
pub open spec fn total_len(l: Seq<Seq<u8>>) -> int
    decreases l.len()
{
    if l.len() == 0 { 0 } else { total_len(l.drop_last()) + l.last().len() + 5 }
}
pub proof fn lemma_sym_fold_len(p: Seq<u8>, l: Seq<Seq<u8>>, fa: bool, at0: bool)
    ensures sym_fold(p, l, fa, at0).0.len() <= p.len() + total_len(l), sym_append_text(p, l, fa, at0).len() <= p.len() + total_len(l) + 4, total_len(l) >= 0,
    decreases l.len()
{
    reveal(path_fits); reveal(emb_fits);
    reveal(push_text0);
    if l.len() > 0 {
        lemma_sym_fold_len(p, l.drop_last(), fa, at0);
        lemma_sym_push_len(sym_fold(p, l.drop_last(), fa, at0).0, l.last(), fa, at0);
    }
}
pub proof fn lemma_total_len_push(l: Seq<Seq<u8>>, s: Seq<u8>)
    ensures total_len(l.push(s)) == total_len(l) + s.len() + 5,
{
    reveal(path_fits); reveal(emb_fits);
    assert(l.push(s).drop_last() =~= l);
}
/// the pieces of a text from a piece start on weigh at most 6 * (remaining bytes + 1)
pub proof fn lemma_total_len_split(p: Seq<u8>, i: int)
    requires 0 <= i <= p.len(),
    ensures total_len(split_from(p, i)) <= 6 * (p.len() - i + 1),
    decreases p.len() - i
{
    reveal(path_fits); reveal(emb_fits);
    lemma_first_of_bounds(p, i, C_SLASH);
    let e = first_of(p, i, C_SLASH);
    if e < p.len() {
        lemma_total_len_split(p, e + 1);
        lemma_total_len_front(p.subrange(i, e), split_from(p, e + 1));
        assert(split_from(p, i) =~= seq![p.subrange(i, e)] + split_from(p, e + 1));
    } else {
        let one = seq![p.subrange(i, p.len() as int)];
        assert(split_from(p, i) =~= one);
        lemma_total_len_front(p.subrange(i, p.len() as int), Seq::<Seq<u8>>::empty());
        assert(one =~= seq![p.subrange(i, p.len() as int)] + Seq::<Seq<u8>>::empty());
    }
}
pub proof fn lemma_total_len_front(s: Seq<u8>, l: Seq<Seq<u8>>)
    ensures total_len(seq![s] + l) == s.len() + 5 + total_len(l),
    decreases l.len()
{
    reveal(path_fits); reveal(emb_fits);
    let all = seq![s] + l;
    if l.len() == 0 {
        assert(all =~= seq![s]);
        assert(all.drop_last() =~= Seq::<Seq<u8>>::empty());
        assert(all.last() == s);
        assert(total_len(all.drop_last()) == 0);
        assert(total_len(l) == 0);
    } else {
        assert(all.drop_last() =~= seq![s] + l.drop_last());
        assert(all.last() == l.last());
        lemma_total_len_front(s, l.drop_last());
    }
}
} // verus!

verus! {
pub proof fn lemma_total_len_prefix(a: Seq<Seq<u8>>, b: Seq<Seq<u8>>)
    ensures total_len(a) <= total_len(a + b), total_len(a) >= 0,
    decreases b.len()
{
    reveal(path_fits); reveal(emb_fits);
    lemma_sym_fold_len(sq0(), a, false, false);
    if b.len() > 0 {
        lemma_total_len_prefix(a, b.drop_last());
        assert((a + b).drop_last() =~= a + b.drop_last());
        assert((a + b).last() == b.last());
    } else {
        assert(a + b =~= a);
    }
}
} // verus!
