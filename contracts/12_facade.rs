// C13: the eight macro-generated URI/IRI types and the generated functions the conversions use. TRUSTED
// (dependency output): new_unchecked is a transmute / field initialisation and REQUIRES membership in the type's
// language (its documented safety condition); accessors return the field; `new` is the checked constructor
// (its result is what C01 proves about `validate`).
verus! {

#[verifier::external_type_specification]
#[verifier::external_body]
pub struct ExUriUri(crate::uri::Uri);

#[verifier::external_type_specification]
#[verifier::external_body]
pub struct ExUriUriRef(crate::uri::UriRef);

#[verifier::external_type_specification]
#[verifier::external_body]
pub struct ExIriIri(crate::iri::Iri);

#[verifier::external_type_specification]
#[verifier::external_body]
pub struct ExIriIriRef(crate::iri::IriRef);

#[verifier::external_type_specification]
#[verifier::external_body]
pub struct ExUriUriBuf(crate::uri::UriBuf);

#[verifier::external_type_specification]
#[verifier::external_body]
pub struct ExUriUriRefBuf(crate::uri::UriRefBuf);

#[verifier::external_type_specification]
#[verifier::external_body]
pub struct ExIriIriBuf(crate::iri::IriBuf);

#[verifier::external_type_specification]
#[verifier::external_body]
pub struct ExIriIriRefBuf(crate::iri::IriRefBuf);

#[verifier::external_type_specification]
#[verifier::reject_recursive_types(T)]
pub struct ExInvalidUri<T>(crate::uri::InvalidUri<T>);

#[verifier::external_type_specification]
#[verifier::reject_recursive_types(T)]
pub struct ExInvalidUriRef<T>(crate::uri::InvalidUriRef<T>);

#[verifier::external_type_specification]
#[verifier::reject_recursive_types(T)]
pub struct ExInvalidIri<T>(crate::iri::InvalidIri<T>);

#[verifier::external_type_specification]
#[verifier::reject_recursive_types(T)]
pub struct ExInvalidIriRef<T>(crate::iri::InvalidIriRef<T>);

// component types named by the associated types of the facade trait impls (needed so that Verus sees those impls consistently)
#[verifier::external_type_specification]
#[verifier::external_body]
pub struct ExUriAuthority(crate::uri::Authority);

#[verifier::external_type_specification]
#[verifier::external_body]
pub struct ExUriPath(crate::uri::Path);

#[verifier::external_type_specification]
#[verifier::external_body]
pub struct ExUriPathBuf(crate::uri::PathBuf);

#[verifier::external_type_specification]
#[verifier::external_body]
pub struct ExUriQuery(crate::uri::Query);

#[verifier::external_type_specification]
#[verifier::external_body]
pub struct ExUriFragment(crate::uri::Fragment);

#[verifier::external_type_specification]
#[verifier::external_body]
pub struct ExUriSegment(crate::uri::Segment);

#[verifier::external_type_specification]
#[verifier::external_body]
pub struct ExUriUserInfo(crate::uri::UserInfo);

#[verifier::external_type_specification]
#[verifier::external_body]
pub struct ExUriHost(crate::uri::Host);

#[verifier::external_type_specification]
#[verifier::external_body]
pub struct ExIriAuthority(crate::iri::Authority);

#[verifier::external_type_specification]
#[verifier::external_body]
pub struct ExIriPath(crate::iri::Path);

#[verifier::external_type_specification]
#[verifier::external_body]
pub struct ExIriPathBuf(crate::iri::PathBuf);

#[verifier::external_type_specification]
#[verifier::external_body]
pub struct ExIriQuery(crate::iri::Query);

#[verifier::external_type_specification]
#[verifier::external_body]
pub struct ExIriFragment(crate::iri::Fragment);

#[verifier::external_type_specification]
#[verifier::external_body]
pub struct ExIriSegment(crate::iri::Segment);

#[verifier::external_type_specification]
#[verifier::external_body]
pub struct ExIriUserInfo(crate::iri::UserInfo);

#[verifier::external_type_specification]
#[verifier::external_body]
pub struct ExIriHost(crate::iri::Host);

pub assume_specification [crate::uri::Uri::new_unchecked] (b: &[u8]) -> (r: &crate::uri::Uri)
    requires lang_uri(b@),
    ensures bytes_of(r) == b@;
pub assume_specification<T: ?Sized + AsRef<[u8]>> [crate::uri::Uri::new] (input: &T) -> (r: Result<&crate::uri::Uri, crate::uri::InvalidUri<&T>>)
    ensures r is Ok <==> lang_uri(bytes_of(input)), r is Ok ==> bytes_of(r->Ok_0) == bytes_of(input);
pub assume_specification [crate::uri::Uri::as_bytes] (s: &crate::uri::Uri) -> (r: &[u8])
    ensures r@ == bytes_of(s);
pub assume_specification [crate::uri::UriRef::new_unchecked] (b: &[u8]) -> (r: &crate::uri::UriRef)
    requires lang_uriref(b@),
    ensures bytes_of(r) == b@;
pub assume_specification<T: ?Sized + AsRef<[u8]>> [crate::uri::UriRef::new] (input: &T) -> (r: Result<&crate::uri::UriRef, crate::uri::InvalidUriRef<&T>>)
    ensures r is Ok <==> lang_uriref(bytes_of(input)), r is Ok ==> bytes_of(r->Ok_0) == bytes_of(input);
pub assume_specification [crate::uri::UriRef::as_bytes] (s: &crate::uri::UriRef) -> (r: &[u8])
    ensures r@ == bytes_of(s);
pub assume_specification [crate::iri::Iri::new_unchecked] (b: &str) -> (r: &crate::iri::Iri)
    requires lang_iri(bytes_of(b)),
    ensures bytes_of(r) == bytes_of(b);
pub assume_specification [crate::iri::Iri::as_str] (s: &crate::iri::Iri) -> (r: &str)
    ensures bytes_of(r) == bytes_of(s);
pub assume_specification [crate::iri::Iri::as_bytes] (s: &crate::iri::Iri) -> (r: &[u8])
    ensures r@ == bytes_of(s);
pub assume_specification [crate::iri::IriRef::new_unchecked] (b: &str) -> (r: &crate::iri::IriRef)
    requires lang_iriref(bytes_of(b)),
    ensures bytes_of(r) == bytes_of(b);
pub assume_specification [crate::iri::IriRef::as_str] (s: &crate::iri::IriRef) -> (r: &str)
    ensures bytes_of(r) == bytes_of(s);
pub assume_specification [crate::iri::IriRef::as_bytes] (s: &crate::iri::IriRef) -> (r: &[u8])
    ensures r@ == bytes_of(s);
pub assume_specification [crate::uri::UriBuf::new_unchecked] (b: Vec<u8>) -> (r: crate::uri::UriBuf)
    requires lang_uri(b@),
    ensures bytes_of(&r) == b@;
pub assume_specification [crate::uri::UriBuf::into_bytes] (s: crate::uri::UriBuf) -> (r: Vec<u8>)
    ensures r@ == bytes_of(&s);
pub assume_specification [crate::uri::UriRefBuf::new_unchecked] (b: Vec<u8>) -> (r: crate::uri::UriRefBuf)
    requires lang_uriref(b@),
    ensures bytes_of(&r) == b@;
pub assume_specification [crate::uri::UriRefBuf::into_bytes] (s: crate::uri::UriRefBuf) -> (r: Vec<u8>)
    ensures r@ == bytes_of(&s);
pub assume_specification [crate::iri::IriBuf::new_unchecked] (b: String) -> (r: crate::iri::IriBuf)
    requires lang_iri(bytes_of(&b)),
    ensures bytes_of(&r) == bytes_of(&b);
pub assume_specification [crate::iri::IriBuf::into_string] (s: crate::iri::IriBuf) -> (r: String)
    ensures bytes_of(&r) == bytes_of(&s);
pub assume_specification [crate::iri::IriRefBuf::new_unchecked] (b: String) -> (r: crate::iri::IriRefBuf)
    requires lang_iriref(bytes_of(&b)),
    ensures bytes_of(&r) == bytes_of(&b);
pub assume_specification [crate::iri::IriRefBuf::into_string] (s: crate::iri::IriRefBuf) -> (r: String)
    ensures bytes_of(&r) == bytes_of(&s);

// owned checked constructors and byte extraction of the IRI family (generated). TRUSTED.
pub assume_specification [crate::uri::UriBuf::new] (input: Vec<u8>) -> (r: Result<crate::uri::UriBuf, crate::uri::InvalidUri<Vec<u8>>>)
    ensures r is Ok <==> lang_uri(input@), match r { Ok(u) => bytes_of(&u) == input@, Err(e) => e.0@ == input@ };
pub assume_specification [crate::uri::UriRefBuf::new] (input: Vec<u8>) -> (r: Result<crate::uri::UriRefBuf, crate::uri::InvalidUriRef<Vec<u8>>>)
    ensures r is Ok <==> lang_uriref(input@), match r { Ok(u) => bytes_of(&u) == input@, Err(e) => e.0@ == input@ };
pub assume_specification [crate::iri::IriBuf::into_bytes] (s: crate::iri::IriBuf) -> (r: Vec<u8>)
    ensures r@ == bytes_of(&s);
pub assume_specification [crate::iri::IriRefBuf::into_bytes] (s: crate::iri::IriRefBuf) -> (r: Vec<u8>)
    ensures r@ == bytes_of(&s);

// generated as_str of the component types whose text is viewed as a percent-encoded string (C19). TRUSTED.
pub assume_specification [crate::uri::Host::as_str] (s: &crate::uri::Host) -> (r: &str)
    ensures bytes_of(r) == bytes_of(s);
pub assume_specification [crate::uri::UserInfo::as_str] (s: &crate::uri::UserInfo) -> (r: &str)
    ensures bytes_of(r) == bytes_of(s);
pub assume_specification [crate::uri::Query::as_str] (s: &crate::uri::Query) -> (r: &str)
    ensures bytes_of(r) == bytes_of(s);
pub assume_specification [crate::uri::Fragment::as_str] (s: &crate::uri::Fragment) -> (r: &str)
    ensures bytes_of(r) == bytes_of(s);
pub assume_specification [crate::iri::Host::as_str] (s: &crate::iri::Host) -> (r: &str)
    ensures bytes_of(r) == bytes_of(s);
pub assume_specification [crate::iri::UserInfo::as_str] (s: &crate::iri::UserInfo) -> (r: &str)
    ensures bytes_of(r) == bytes_of(s);
pub assume_specification [crate::iri::Query::as_str] (s: &crate::iri::Query) -> (r: &str)
    ensures bytes_of(r) == bytes_of(s);
pub assume_specification [crate::iri::Fragment::as_str] (s: &crate::iri::Fragment) -> (r: &str)
    ensures bytes_of(r) == bytes_of(s);

// owned checked constructors of the IRI family (generated) and the std UTF-8 step of from_vec. TRUSTED.
pub assume_specification [crate::iri::IriBuf::new] (input: String) -> (r: Result<crate::iri::IriBuf, crate::iri::InvalidIri<String>>)
    ensures r is Ok <==> lang_iri(bytes_of(&input)), match r { Ok(u) => bytes_of(&u) == bytes_of(&input), Err(e) => bytes_of(&e.0) == bytes_of(&input) };
pub assume_specification [crate::iri::IriRefBuf::new] (input: String) -> (r: Result<crate::iri::IriRefBuf, crate::iri::InvalidIriRef<String>>)
    ensures r is Ok <==> lang_iriref(bytes_of(&input)), match r { Ok(u) => bytes_of(&u) == bytes_of(&input), Err(e) => bytes_of(&e.0) == bytes_of(&input) };
#[verifier::external_type_specification]
#[verifier::external_body]
pub struct ExFromUtf8Error(std::string::FromUtf8Error);
pub uninterp spec fn fue_bytes(e: &std::string::FromUtf8Error) -> Seq<u8>;
pub assume_specification [std::string::String::from_utf8] (v: Vec<u8>) -> (r: Result<String, std::string::FromUtf8Error>)
    ensures r is Ok <==> utf8_ok(v@), match r { Ok(s) => bytes_of(&s) == v@, Err(e) => fue_bytes(&e) == v@ };
pub assume_specification [std::string::FromUtf8Error::into_bytes] (e: std::string::FromUtf8Error) -> (r: Vec<u8>)
    ensures r@ == fue_bytes(&e);
pub assume_specification [std::string::String::into_bytes] (s: String) -> (r: Vec<u8>)
    ensures r@ == bytes_of(&s);

// generated new_unchecked of the URI component types (transmute of the slice). TRUSTED: they keep the text.
pub assume_specification [crate::uri::Authority::new_unchecked] (b: &[u8]) -> (r: &crate::uri::Authority)
    ensures bytes_of(r) == b@;
pub assume_specification [crate::uri::Path::new_unchecked] (b: &[u8]) -> (r: &crate::uri::Path)
    ensures bytes_of(r) == b@;
pub assume_specification [crate::uri::Query::new_unchecked] (b: &[u8]) -> (r: &crate::uri::Query)
    ensures bytes_of(r) == b@;
pub assume_specification [crate::uri::Fragment::new_unchecked] (b: &[u8]) -> (r: &crate::uri::Fragment)
    ensures bytes_of(r) == b@;
pub assume_specification [crate::uri::UserInfo::new_unchecked] (b: &[u8]) -> (r: &crate::uri::UserInfo)
    ensures bytes_of(r) == b@;
pub assume_specification [crate::uri::Host::new_unchecked] (b: &[u8]) -> (r: &crate::uri::Host)
    ensures bytes_of(r) == b@;
pub assume_specification [crate::uri::Authority::as_bytes] (s: &crate::uri::Authority) -> (r: &[u8])
    ensures r@ == bytes_of(s);
#[verifier::external_type_specification]
pub struct ExUriRefParts<'a>(crate::uri::UriRefParts<'a>);
#[verifier::external_type_specification]
pub struct ExUriParts<'a>(crate::uri::UriParts<'a>);
#[verifier::external_type_specification]
pub struct ExUriAuthorityParts<'a>(crate::uri::AuthorityParts<'a>);

// std: unchecked UTF-8 reinterpretation. TRUSTED (std documentation: the bytes must be valid UTF-8)
pub assume_specification [std::str::from_utf8_unchecked] (b: &[u8]) -> (r: &str)
    requires utf8_ok(b@),
    ensures bytes_of(r) == b@;
pub assume_specification [std::string::String::from_utf8_unchecked] (b: Vec<u8>) -> (r: String)
    requires utf8_ok(b@),
    ensures bytes_of(&r) == b@;

// facade accessors used as guards by the conversions (one-line delegations to the RiRefImpl methods proved for
// C02; the delegation itself is outside Verus - bounded Kani facade harnesses of C02 compare them). ASSUMED.
// generated Deref of the owned types to the borrowed ones (returns the same text). TRUSTED.
pub assume_specification [<crate::uri::UriRefBuf as std::ops::Deref>::deref] (s: &crate::uri::UriRefBuf) -> (r: &<crate::uri::UriRefBuf as std::ops::Deref>::Target)
    ensures bytes_of(r) == bytes_of(s);
pub assume_specification [<crate::iri::IriRefBuf as std::ops::Deref>::deref] (s: &crate::iri::IriRefBuf) -> (r: &<crate::iri::IriRefBuf as std::ops::Deref>::Target)
    ensures bytes_of(r) == bytes_of(s);
} // verus!
