// Character predicates, std functions assumed (trusted base), scheme-likeness.
verus! {

pub open spec fn is_alpha(b: u8) -> bool { (65 <= b && b <= 90) || (97 <= b && b <= 122) }
pub open spec fn is_digit(b: u8) -> bool { 48 <= b && b <= 57 }
pub open spec fn is_alnum(b: u8) -> bool { is_alpha(b) || is_digit(b) }
pub open spec fn is_scheme_char_spec(b: u8) -> bool { is_alnum(b) || b == 43 || b == 45 || b == 46 }

// TRUSTED: std contracts
pub assume_specification [u8::is_ascii_alphabetic] (b: &u8) -> (r: bool)
    ensures r == is_alpha(*b);
pub assume_specification [u8::is_ascii_alphanumeric] (b: &u8) -> (r: bool)
    ensures r == is_alnum(*b);
pub assume_specification<T> [bool::then_some] (b: bool, t: T) -> (r: Option<T>)
    ensures r == (if b { Some(t) } else { None::<T> });

/// ALPHA *( ALPHA / DIGIT / "+" / "-" / "." ) ":" is a prefix of `s`
pub open spec fn lls_from(s: Seq<u8>, j: int) -> bool
    decreases s.len() - j
{
    if j < 0 || j >= s.len() { false }
    else if s[j] == 58 { true }
    else if is_scheme_char_spec(s[j]) { lls_from(s, j + 1) }
    else { false }
}

#[verifier::opaque]
pub open spec fn looks_like_scheme_spec(s: Seq<u8>) -> bool {
    s.len() > 0 && is_alpha(s[0]) && lls_from(s, 1)
}

pub proof fn lemma_lls_from(s: Seq<u8>, from: int, k: int)
    requires 0 <= from <= k <= s.len(),
             forall|j: int| from <= j < k ==> is_scheme_char_spec(#[trigger] s[j]),
    ensures lls_from(s, from) == lls_from(s, k),
    decreases k - from
{
    if from < k { lemma_lls_from(s, from + 1, k); }
}

/// 0: scheme, 1: authority, 2: path  -- what follows position i
pub open spec fn sap_spec(s: Seq<u8>, i: int) -> int {
    let k = first_of(s, i, C_CSQF);
    if k < s.len() && s[k] == 58 { 0 } else if dslash(s, i) { 1 } else { 2 }
}

pub proof fn lemma_sap(s: Seq<u8>)
    ensures
        sap_spec(s, 0) == 0 <==> x_has_sch(s),
        sap_spec(s, 0) == 1 <==> !x_has_sch(s) && x_has_auth(s),
{
}

pub proof fn lemma_colon_is_scheme_end(s: Seq<u8>)
    requires x_has_sch(s),
    ensures first_of(s, 0, C_COLON) == x_sch_end(s),
{
    lemma_first_of_bounds(s, 0, C_CSQF);
    lemma_first_of_is(s, 0, C_COLON, x_sch_end(s));
}

} // verus!
verus! {
/// TRUSTED: a `[u8]` is never longer than isize::MAX bytes (Rust allocation rule).
#[verifier::external_body]
pub proof fn axiom_u8_slice_len(b: &[u8])
    ensures b@.len() <= isize::MAX, b@.len() < usize::MAX,
{ }
#[verifier::external_body]
pub proof fn axiom_u8_vec_len(b: &Vec<u8>)
    ensures b@.len() <= isize::MAX, b@.len() < usize::MAX,
{ }
} // verus!
verus! {
/// TRUSTED: the text of any value is a real `[u8]`, hence at most isize::MAX bytes long.
#[verifier::external_body]
pub proof fn axiom_text_len<T: ?Sized>(t: &T)
    ensures bytes_of(t).len() <= isize::MAX, bytes_of(t).len() < usize::MAX,
{ }
} // verus!
