// The segment sequence of a path text (the '/'-split) and the list semantics of editing (C10).
verus! {

pub open spec fn no_slash(s: Seq<u8>) -> bool { forall|j: int| 0 <= j < s.len() ==> #[trigger] s[j] != 47 }

/// the '/'-separated pieces of p from piece start i
pub open spec fn split_from(p: Seq<u8>, i: int) -> Seq<Seq<u8>>
    decreases p.len() - i
    via split_from_decreases
{
    if i < 0 || i > p.len() { Seq::empty() }
    else {
        let e = first_of(p, i, C_SLASH);
        if e >= p.len() { seq![p.subrange(i, p.len() as int)] }
        else { seq![p.subrange(i, e)] + split_from(p, e + 1) }
    }
}
#[via_fn]
proof fn split_from_decreases(p: Seq<u8>, i: int) {
    if !(i < 0 || i > p.len()) { lemma_first_of_bounds(p, i, C_SLASH); }
}
/// segment sequence: "" and "/" have none
pub open spec fn segs(p: Seq<u8>) -> Seq<Seq<u8>> {
    if p_is_empty(p) { Seq::empty() } else { split_from(p, p_first_off(p)) }
}

pub proof fn lemma_split_nonempty(p: Seq<u8>, i: int)
    requires 0 <= i <= p.len(),
    ensures split_from(p, i).len() >= 1,
    decreases p.len() - i
{
    lemma_first_of_bounds(p, i, C_SLASH);
}

/// appending "/" + s (s without '/') appends exactly the piece s
pub proof fn lemma_split_push(p: Seq<u8>, s: Seq<u8>, i: int)
    requires 0 <= i <= p.len(), no_slash(s),
    ensures split_from(p + sq1(47) + s, i) =~= split_from(p, i).push(s),
    decreases p.len() - i
{
    let t = p + sq1(47) + s;
    lemma_first_of_bounds(p, i, C_SLASH);
    let e = first_of(p, i, C_SLASH);
    assert forall|j: int| i <= j < e implies !cls(C_SLASH, #[trigger] t[j]) by { assert(t[j] == p[j]); }
    if e < p.len() {
        assert(t[e] == p[e]);
        lemma_first_of_is(t, i, C_SLASH, e);
        lemma_split_push(p, s, e + 1);
        assert(t.subrange(i, e) =~= p.subrange(i, e));
        assert(split_from(t, i) =~= seq![p.subrange(i, e)] + split_from(t, e + 1));
    } else {
        assert(t[p.len() as int] == 47);
        lemma_first_of_is(t, i, C_SLASH, p.len() as int);
        assert(t.subrange(i, p.len() as int) =~= p.subrange(i, p.len() as int));
        // the rest of t after the new '/' is s, which has no '/'
        let k = p.len() as int + 1;
        assert forall|j: int| k <= j < t.len() implies !cls(C_SLASH, #[trigger] t[j]) by { assert(t[j] == s[j - k]); }
        lemma_first_of_none(t, k, C_SLASH);
        assert(t.subrange(k, t.len() as int) =~= s);
        assert(split_from(t, k) =~= seq![s]);
        assert(split_from(t, i) =~= seq![p.subrange(i, p.len() as int)] + seq![s]);
    }
}

/// a text without '/' from i on is a single piece
pub proof fn lemma_split_single(p: Seq<u8>, i: int)
    requires 0 <= i <= p.len(), forall|j: int| i <= j < p.len() ==> #[trigger] p[j] != 47,
    ensures split_from(p, i) =~= seq![p.subrange(i, p.len() as int)],
{
    lemma_first_of_none(p, i, C_SLASH);
}

/// list semantics of push on the text level (C10): exactly the pushed segment is appended; a
/// "." is inserted only as a shield in front of a first segment that is empty or contains ':',
/// and removed only where it was such a shield ("/./" after an authority)
pub proof fn lemma_push_list(p: Seq<u8>, s: Seq<u8>, fa: bool, at0: bool)
    requires seg_shape(s),
    ensures ({
        let r = push_text0(p, s, fa, at0);
        if p_is_empty(p) {
            if (at0 && has_colon(s)) || s.len() == 0 { segs(r) =~= seq![sq1(46), s] } else { segs(r) =~= seq![s] }
        } else if fa && is_shield3(p) { segs(p) =~= seq![sq1(46), sq0()] && segs(r) =~= seq![sq0(), s] }
        else { segs(r) =~= segs(p).push(s) }
    }),
{
    reveal(push_text0);
    let r = push_text0(p, s, fa, at0);
    assert(no_slash(s));
    if p_is_empty(p) {
        if (at0 && has_colon(s)) || s.len() == 0 {
            let fo = p.len() as int;      // "" -> 0, "/" -> 1
            assert(r =~= p + sq2(46, 47) + s);
            assert(r[fo] == 46 && r[fo + 1] == 47);
            assert(p_first_off(r) == fo);
            lemma_first_of_is(r, fo, C_SLASH, fo + 1);
            assert forall|j: int| fo + 2 <= j < r.len() implies #[trigger] r[j] != 47 by { assert(r[j] == s[j - fo - 2]); }
            lemma_split_single(r, fo + 2);
            assert(r.subrange(fo, fo + 1) =~= sq1(46));
            assert(r.subrange(fo + 2, r.len() as int) =~= s);
            assert(split_from(r, fo) =~= seq![sq1(46)] + split_from(r, fo + 2));
        } else {
            let fo = p.len() as int;
            assert(r =~= p + s);
            assert(s.len() > 0);
            assert(p_first_off(r) == fo) by { if fo == 0 { assert(r[0] == s[0]); } };
            assert forall|j: int| fo <= j < r.len() implies #[trigger] r[j] != 47 by { assert(r[j] == s[j - fo]); }
            lemma_split_single(r, fo);
            assert(r.subrange(fo, r.len() as int) =~= s);
            assert(!p_is_empty(r));
        }
    } else if fa && is_shield3(p) {
        // p == "/./": pieces [".", ""]; r == "//" + s: pieces ["", s]
        lemma_first_of_is(p, 1, C_SLASH, 2);
        lemma_split_single(p, 3);
        assert(p.subrange(1, 2) =~= sq1(46));
        assert(p.subrange(3, 3) =~= sq0());
        assert(split_from(p, 1) =~= seq![sq1(46)] + split_from(p, 3));
        assert(r[0] == 47 && r[1] == 47);
        lemma_first_of_is(r, 1, C_SLASH, 1);
        assert forall|j: int| 2 <= j < r.len() implies #[trigger] r[j] != 47 by { assert(r[j] == s[j - 2]); }
        lemma_split_single(r, 2);
        assert(r.subrange(1, 1) =~= sq0());
        assert(r.subrange(2, r.len() as int) =~= s);
        assert(split_from(r, 1) =~= seq![sq0()] + split_from(r, 2));
    } else {
        let fo = p_first_off(p);
        assert(r =~= p + sq1(47) + s);
        assert(r[0] == p[0]);
        assert(p_first_off(r) == fo);
        assert(!p_is_empty(r));
        lemma_split_push(p, s, fo);
    }
}

} // verus!
verus! {
/// list semantics of pop on the text level (C10) for a non-empty path that does not end in "..":
/// the last segment is removed. EXCLUDED (recorded deviation): a path "//x" whose first segment is
/// empty and which has exactly two segments - there the code yields "/" (no segment) where list
/// semantics asks for the single empty segment.
pub proof fn lemma_pop_list(p: Seq<u8>)
    requires !p_is_empty(p),
        !(p[p_first_off(p)] == 47 && seg_start_of(p, p_first_off(p), p.len() as int) == p_first_off(p) + 1),
    ensures segs(p.subrange(0, pop_cut(p))) =~= segs(p).drop_last(),
{
    let fo = p_first_off(p);
    let st = seg_start_of(p, fo, p.len() as int);
    lemma_seg_start_of(p, fo, p.len() as int);
    let c = pop_cut(p);
    let q = p.subrange(0, c);
    let s = p.subrange(st, p.len() as int);
    assert(no_slash(s)) by { assert(forall|j: int| 0 <= j < s.len() ==> #[trigger] s[j] == p[st + j]); }
    if st > fo {
        assert(c == st - 1 && c > fo);
        assert(p =~= q + sq1(47) + s);
        assert(q[0] == p[0]);
        assert(!p_is_empty(q));
        assert(p_first_off(q) == fo);
        lemma_split_push(q, s, fo);
        lemma_split_nonempty(q, fo);
    } else {
        lemma_split_single(p, fo);
        assert(p_is_empty(q));
    }
}
pub proof fn lemma_clear_list(p: Seq<u8>)
    ensures segs(clear_text(p)) =~= Seq::<Seq<u8>>::empty(),
{
}
} // verus!
