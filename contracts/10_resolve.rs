// Reference resolution (C06): RFC 3986 5.2.2 component selection on the decomposition level.
verus! {

/// RFC 3986 5.2.2, the four components other than the path:
///   T.scheme    = R.scheme if defined else Base.scheme
///   T.authority = R.authority if R.scheme or R.authority defined, else Base.authority
///   T.query     = R.query if R.scheme, R.authority or a non-empty R.path is defined; else R.query if defined, else Base.query
///   T.fragment  = R.fragment
pub open spec fn res_select(r: Seq<u8>, b: Seq<u8>, n: Seq<u8>) -> bool {
    &&& ref_shape(n) && x_has_sch(n)
    &&& r_scheme(n) == (if x_has_sch(r) { r_scheme(r) } else { r_scheme(b) })
    &&& r_auth(n) == (if x_has_sch(r) || x_has_auth(r) { r_auth(r) } else { r_auth(b) })
    &&& r_query(n) == (if x_has_sch(r) || x_has_auth(r) || r_path(r).len() > 0 { r_query(r) } else if r_query(r) is Some { r_query(r) } else { r_query(b) })
    &&& r_frag(n) == r_frag(r)
    &&& res_path_unmerged(r, b, n)
    &&& (!x_has_sch(r) && !x_has_auth(r) && r_path(r).len() > 0 && r_path(r)[0] != 47 ==> r_path(n) == res_merge_path(r, b))
}
/// text returned by PathImpl::parent_or_empty (its contract, as a function)
pub open spec fn parent_text(p: Seq<u8>) -> Seq<u8> {
    let d = dir_end(p);
    if p_is_empty(p) || d == 0 { if p_is_abs(p) { sq1(47) } else { sq0() } }
    else if d == 1 { sq1(47) }
    else if d == 2 && p[0] == 47 { sq3(47, 46, 47) }
    else { p.subrange(0, d - 1) }
}
/// the merge branch, step by step as the code composes it from operations that are each under contract:
/// the base path without its last segment (or "/" for an empty base path after an authority, RFC 5.2.3),
/// normalised in place, then the reference's segments appended with dot-segment semantics, then installed
/// with set_path (whose only side effects are the documented disambiguations)
pub open spec fn res_merge_path(r: Seq<u8>, b: Seq<u8>) -> Seq<u8> {
    let fa = x_has_auth(b);
    let sch = r_scheme(b);
    let rp = if fa { make_abs(r_path(r)) } else { r_path(r) };
    let dir = if fa && p_is_empty(r_path(b)) { fit_path(sch, r_auth(b), sq1(47)) }
              else { normalize_text(fit_path(sch, r_auth(b), parent_text(r_path(b))), fa, false) };
    fit_path(sch, r_auth(b), sym_append_text(dir, segs(rp), fa, false))
}
/// does the path end in a dot segment ("." or "..")?
pub open spec fn dot_last(p: Seq<u8>) -> bool { !p_is_empty(p) && (is_dot(last_seg(p)) || is_dotdot(last_seg(p))) }
/// RFC 3986 5.2.4 on a path in its context: in-place normalisation plus the trailing '/' (an empty last segment) that a
/// final dot segment leaves, unless nothing is left
pub open spec fn rds_text(p: Seq<u8>, fa: bool, at0: bool) -> Seq<u8> {
    let t = normalize_text(p, fa, at0);
    if dot_last(p) && !p_is_empty(t) { push_text(t, sq0(), fa, at0) } else { t }
}
/// the path of the four branches that do not merge: RFC 5.2.4 on the reference's own path (rds_text), or the base
/// path when the reference's path is empty
pub open spec fn res_path_unmerged(r: Seq<u8>, b: Seq<u8>, n: Seq<u8>) -> bool {
    if x_has_sch(r) { r_path(n) == rds_text(r_path(r), x_has_auth(r), false) }
    else if x_has_auth(r) { r_path(n) == rds_text(r_path(r), true, false) }
    else if r_path(r).len() == 0 { r_path(n) == r_path(b) }
    else if r_path(r)[0] == 47 { r_path(n) == rds_text(r_path(r), x_has_auth(b), false) }
    else { true }
}

} // verus!
verus! {
/// every text parent_or_empty can return is a path text no longer than the input (+3 for "/./")
pub proof fn lemma_parent_shape(p: Seq<u8>)
    requires path_shape(p),
    ensures ({ let d = dir_end(p);
        &&& 0 <= d <= p.len()
        &&& path_shape(sq0()) && path_shape(sq1(47)) && path_shape(sq3(47, 46, 47))
        &&& (d >= 1 ==> path_shape(p.subrange(0, d - 1))) }),
{
    reveal(path_fits); reveal(emb_fits);
    lemma_seg_start_of(p, 0, p.len() as int);
    let d = dir_end(p);
    if d >= 1 {
        let q = p.subrange(0, d - 1);
        assert(forall|j: int| 0 <= j < q.len() ==> #[trigger] q[j] == p[j]);
    }
}
pub proof fn lemma_compose_len(sch: Option<Seq<u8>>, au: Option<Seq<u8>>, p: Seq<u8>, q: Option<Seq<u8>>, f: Option<Seq<u8>>)
    ensures ref_compose(sch, au, p, q, f).len() == opt_prefix(sch, 58).len() + opt_auth(au).len() + p.len() + opt_suffix(63, q).len() + opt_suffix(35, f).len(),
{
}
/// scheme + authority of a text take no more room than the text
pub proof fn lemma_head_len(b: Seq<u8>)
    requires ref_shape(b),
    ensures opt_prefix(r_scheme(b), 58).len() + opt_auth(r_auth(b)).len() == x_auth_end(b), x_auth_end(b) <= b.len(), r_path(b).len() <= b.len(),
{
    reveal(path_fits); reveal(emb_fits);
    lemma_ref_pieces(b);
    lemma_x_layout(b);
}
} // verus!
verus! {
/// C06, meaning of the unmerged branches (corollary of lemma_normalize_segs): when the reference has a scheme, an
/// authority or an absolute path, the segments of the target path are the RFC 3986 5.2.4 / Errata 4547 normalized
/// sequence of the reference's own path (norm_fold = remove_dot_segments on segments), preceded by a '.' shield
/// only where the rendering needs one. When the reference's last segment is a dot segment the code additionally pushes
/// the empty segment RFC 5.2.4 leaves (rds_text; the list-level statement of that case is not proved here).
pub proof fn lemma_res_unmerged_rfc(r: Seq<u8>, b: Seq<u8>, n: Seq<u8>)
    requires ref_shape(r), res_select(r, b, n),
        x_has_sch(r) || x_has_auth(r) || (r_path(r).len() > 0 && r_path(r)[0] == 47),
    ensures ({
        let fa = if x_has_sch(r) { x_has_auth(r) } else if x_has_auth(r) { true } else { x_has_auth(b) };
        !lone_empty_unshielded(r_path(r), fa, false) && !dot_last(r_path(r)) ==>
            segs(r_path(n)) =~= shield_seq(r_path(r), fa, false) + norm_segs(r_path(r)) && p_is_abs(r_path(n)) == p_is_abs(r_path(r))
    }),
{
    reveal(path_fits);
    lemma_ref_pieces(r);
    let fa = if x_has_sch(r) { x_has_auth(r) } else if x_has_auth(r) { true } else { x_has_auth(b) };
    assert(path_shape(r_path(r)));
    if !lone_empty_unshielded(r_path(r), fa, false) { lemma_normalize_segs(r_path(r), fa, false); }
}
} // verus!
