// Reference resolution (C06): RFC 3986 5.2.2 component selection on the decomposition level.
verus! {

/// RFC 3986 5.2.2, the four components other than the path:
///   T.scheme    = R.scheme if defined else Base.scheme
///   T.authority = R.authority if R.scheme or R.authority defined, else Base.authority
///   T.query     = R.query if R.scheme, R.authority or a non-empty R.path is defined; else R.query if defined, else Base.query
///   T.fragment  = R.fragment
pub open spec fn res_select(r: Seq<u8>, b: Seq<u8>, n: Seq<u8>) -> bool {
    &&& ref_shape(n) && x_has_sch(n)
    &&& r_scheme(n) == (if x_has_sch(r) { r_scheme(r) } else { r_scheme(b) })
    &&& r_auth(n) == (if x_has_sch(r) || x_has_auth(r) { r_auth(r) } else { r_auth(b) })
    &&& r_query(n) == (if x_has_sch(r) || x_has_auth(r) || r_path(r).len() > 0 { r_query(r) } else if r_query(r) is Some { r_query(r) } else { r_query(b) })
    &&& r_frag(n) == r_frag(r)
    &&& res_path_unmerged(r, b, n)
    &&& (!x_has_sch(r) && !x_has_auth(r) && r_path(r).len() > 0 && r_path(r)[0] != 47 ==> r_path(n) == res_merge_path(r, b))
}
/// text returned by PathImpl::parent_or_empty (its contract, as a function)
pub open spec fn parent_text(p: Seq<u8>) -> Seq<u8> {
    let d = dir_end(p);
    if p_is_empty(p) || d == 0 { if p_is_abs(p) { sq1(47) } else { sq0() } }
    else if d == 1 { sq1(47) }
    else if d == 2 && p[0] == 47 { sq3(47, 46, 47) }
    else { p.subrange(0, d - 1) }
}
/// the merge branch, step by step as the code composes it from operations that are each under contract:
/// the base path without its last segment (or "/" for an empty base path after an authority, RFC 5.2.3),
/// normalised in place, then the reference's segments appended with dot-segment semantics, then installed
/// with set_path (whose only side effects are the documented disambiguations)
pub open spec fn res_merge_path(r: Seq<u8>, b: Seq<u8>) -> Seq<u8> {
    let fa = x_has_auth(b);
    let sch = r_scheme(b);
    let rp = if fa { make_abs(r_path(r)) } else { r_path(r) };
    let dir = if fa && p_is_empty(r_path(b)) { fit_path(sch, r_auth(b), sq1(47)) }
              else { normalize_text(fit_path(sch, r_auth(b), parent_text(r_path(b))), fa, false) };
    fit_path(sch, r_auth(b), sym_append_text(dir, segs(rp), fa, false))
}
/// does the path end in a dot segment ("." or "..")?
pub open spec fn dot_last(p: Seq<u8>) -> bool { !p_is_empty(p) && (is_dot(last_seg(p)) || is_dotdot(last_seg(p))) }
/// RFC 3986 5.2.4 on a path in its context: in-place normalisation plus the trailing '/' (an empty last segment) that a
/// final dot segment leaves, unless nothing is left
pub open spec fn rds_text(p: Seq<u8>, fa: bool, at0: bool) -> Seq<u8> {
    let t = normalize_text(p, fa, at0);
    if dot_last(p) && !p_is_empty(t) { push_text(t, sq0(), fa, at0) } else { t }
}
/// the path of the four branches that do not merge: RFC 5.2.4 on the reference's own path (rds_text), or the base
/// path when the reference's path is empty
pub open spec fn res_path_unmerged(r: Seq<u8>, b: Seq<u8>, n: Seq<u8>) -> bool {
    if x_has_sch(r) { r_path(n) == rds_text(r_path(r), x_has_auth(r), false) }
    else if x_has_auth(r) { r_path(n) == rds_text(r_path(r), true, false) }
    else if r_path(r).len() == 0 { r_path(n) == r_path(b) }
    else if r_path(r)[0] == 47 { r_path(n) == rds_text(r_path(r), x_has_auth(b), false) }
    else { true }
}

} // verus!
verus! {
/// every text parent_or_empty can return is a path text no longer than the input (+3 for "/./")
pub proof fn lemma_parent_shape(p: Seq<u8>)
    requires path_shape(p),
    ensures ({ let d = dir_end(p);
        &&& 0 <= d <= p.len()
        &&& path_shape(sq0()) && path_shape(sq1(47)) && path_shape(sq3(47, 46, 47))
        &&& (d >= 1 ==> path_shape(p.subrange(0, d - 1))) }),
{
    reveal(path_fits); reveal(emb_fits);
    lemma_seg_start_of(p, 0, p.len() as int);
    let d = dir_end(p);
    if d >= 1 {
        let q = p.subrange(0, d - 1);
        assert(forall|j: int| 0 <= j < q.len() ==> #[trigger] q[j] == p[j]);
    }
}
pub proof fn lemma_compose_len(sch: Option<Seq<u8>>, au: Option<Seq<u8>>, p: Seq<u8>, q: Option<Seq<u8>>, f: Option<Seq<u8>>)
    ensures ref_compose(sch, au, p, q, f).len() == opt_prefix(sch, 58).len() + opt_auth(au).len() + p.len() + opt_suffix(63, q).len() + opt_suffix(35, f).len(),
{
}
/// scheme + authority of a text take no more room than the text
pub proof fn lemma_head_len(b: Seq<u8>)
    requires ref_shape(b),
    ensures opt_prefix(r_scheme(b), 58).len() + opt_auth(r_auth(b)).len() == x_auth_end(b), x_auth_end(b) <= b.len(), r_path(b).len() <= b.len(),
{
    reveal(path_fits); reveal(emb_fits);
    lemma_ref_pieces(b);
    lemma_x_layout(b);
}
} // verus!
verus! {
/// C06, meaning of the unmerged branches (corollary of lemma_normalize_segs): when the reference has a scheme, an
/// authority or an absolute path, the segments of the target path are the RFC 3986 5.2.4 / Errata 4547 normalized
/// sequence of the reference's own path (norm_fold = remove_dot_segments on segments), preceded by a '.' shield
/// only where the rendering needs one. When the reference's last segment is a dot segment the code additionally pushes
/// the empty segment RFC 5.2.4 leaves (rds_text; the list-level statement of that case is not proved here).
pub proof fn lemma_res_unmerged_rfc(r: Seq<u8>, b: Seq<u8>, n: Seq<u8>)
    requires ref_shape(r), res_select(r, b, n),
        x_has_sch(r) || x_has_auth(r) || (r_path(r).len() > 0 && r_path(r)[0] == 47),
    ensures ({
        let fa = if x_has_sch(r) { x_has_auth(r) } else if x_has_auth(r) { true } else { x_has_auth(b) };
        !lone_empty_unshielded(r_path(r), fa, false) && !dot_last(r_path(r)) ==>
            segs(r_path(n)) =~= shield_seq(r_path(r), fa, false) + norm_segs(r_path(r)) && p_is_abs(r_path(n)) == p_is_abs(r_path(r))
    }),
{
    reveal(path_fits);
    lemma_ref_pieces(r);
    let fa = if x_has_sch(r) { x_has_auth(r) } else if x_has_auth(r) { true } else { x_has_auth(b) };
    assert(path_shape(r_path(r)));
    if !lone_empty_unshielded(r_path(r), fa, false) { lemma_normalize_segs(r_path(r), fa, false); }
}
} // verus!
verus! {
/// C06, non-merging branches, final dot segment: the text rds_text writes has the normalized sequence followed by one
/// empty segment (the trailing '/' of RFC 3986 5.2.4). Excluded: nothing left (then nothing is pushed), and the text
/// "/./" after an authority (the shielded lone empty segment), where push rewrites the shield.
pub proof fn lemma_rds_segs(p: Seq<u8>, fa: bool, at0: bool)
    requires path_shape(p), dot_last(p), !lone_empty_unshielded(p, fa, at0),
        !p_is_empty(normalize_text(p, fa, at0)), !(fa && is_shield3(normalize_text(p, fa, at0))),
    ensures segs(rds_text(p, fa, at0)) =~= (shield_seq(p, fa, at0) + norm_segs(p)).push(sq0()),
{
    let t = normalize_text(p, fa, at0);
    lemma_normalize_segs(p, fa, at0);
    assert(seg_shape(sq0()));
    lemma_push_list(t, sq0(), fa, at0);
    reveal(push_text0);
    assert(push_text(t, sq0(), fa, at0) == push_text0(t, sq0(), fa, at0));
}
} // verus!
verus! {
// ---- C06, merge branch: the symbolic push / append folds against the RFC fold, on segment level ----

/// segments without the leading '.' shield
pub open spec fn usegs(p: Seq<u8>) -> Seq<Seq<u8>> {
    let l = segs(p);
    if l.len() > 0 && is_dot(l[0]) { l.drop_first() } else { l }
}
/// the last '/'-piece of a non-empty path is the last element of its segment sequence; the others are the segments of
/// the text cut before it
pub proof fn lemma_last_seg(p: Seq<u8>)
    requires !p_is_empty(p),
    ensures segs(p).len() > 0, segs(p).last() == last_seg(p),
{
    let fo = p_first_off(p);
    let st = seg_start_of(p, fo, p.len() as int);
    lemma_seg_start_of(p, fo, p.len() as int);
    let s = p.subrange(st, p.len() as int);
    assert(no_slash(s)) by { assert(forall|j: int| 0 <= j < s.len() ==> #[trigger] s[j] == p[st + j]); }
    if st > fo {
        let q = p.subrange(0, st - 1);
        assert(p =~= q + sq1(47) + s);
        lemma_split_push(q, s, fo);
    } else {
        lemma_split_single(p, fo);
    }
}
/// the corner cases in which the library's text model deviates from list semantics (each is a recorded finding or a
/// consequence of "/" standing for both no segment and one empty segment)
pub open spec fn sym_step_ok(p: Seq<u8>, s: Seq<u8>) -> bool {
    let fo = p_first_off(p);
    &&& !(s.len() == 0 && p_is_empty(p))                                             // empty segment onto an empty path: dropped
    &&& (is_dotdot(s) && !p_is_empty(p) ==> !(p[fo] == 47 && seg_start_of(p, fo, p.len() as int) == fo + 1))   // pop on "//x"
    &&& (is_dotdot(s) ==> !(segs(p).len() == 1 && is_dot(segs(p)[0])))               // pop on a lone shield "."
    &&& (segs(p).len() >= 2 && is_dot(segs(p)[0]) ==> !is_dot(segs(p)[1]))           // "./." is not a shielded path
}
/// one symbolic push is one step of the RFC 3986 5.2.4 fold on the segments (modulo the shield), outside the corner cases
pub proof fn lemma_sym_push_segs(p: Seq<u8>, s: Seq<u8>, fa: bool, at0: bool)
    requires path_shape(p), seg_shape(s), is_normal(usegs(p), !p_is_abs(p)), sym_step_ok(p, s),
        !(fa && !at0 && p.len() == 0),
    ensures usegs(sym_push_text(p, s, fa, at0)) =~= norm_step(usegs(p), s, !p_is_abs(p)),
        p_is_abs(sym_push_text(p, s, fa, at0)) == p_is_abs(p),
{
    reveal(push_text0);
    let rel = !p_is_abs(p);
    let n = usegs(p);
    let l = segs(p);
    if is_dot(s) {
    } else if is_dotdot(s) {
        if (p_is_empty(p) && rel) || (!p_is_empty(p) && is_dotdot(last_seg(p))) {
            // push "..": no colon, not empty
            assert(!has_colon(sq2(46, 46))) by { assert(!cls(C_CS, 46u8)); lemma_first_of_none(sq2(46, 46), 0, C_CS); }
            lemma_push_list(p, sq2(46, 46), fa, at0);
            assert(s =~= sq2(46, 46));
            if !p_is_empty(p) {
                lemma_last_seg(p);
                // the last segment is ".." so it is not the shield: it belongs to usegs
                if l.len() == 1 { assert(!is_dot(l[0])); }
                assert(n.len() > 0 && n.last() == l.last());
                if fa && is_shield3(p) { assert(l.last() == sq0()); }
            }
        } else if !p_is_empty(p) {
            lemma_pop_list(p);
            lemma_last_seg(p);
            let r = p.subrange(0, pop_cut(p));
            assert(segs(r) =~= l.drop_last());
            if l.len() > 0 && is_dot(l[0]) {
                // shielded: l = ["."] + n, n non-empty (lone shield excluded)
                assert(l.len() >= 2);
                assert(l.drop_last().len() >= 1 && l.drop_last()[0] == l[0]);
                assert(usegs(r) =~= n.drop_last());
                assert(n.last() == l.last());
            } else {
                assert(n =~= l);
                if l.len() >= 2 { assert(l.drop_last()[0] == l[0]); }
            }
            lemma_seg_start_of(p, p_first_off(p), p.len() as int);
            assert(r.len() >= p_first_off(p));
            if p_is_abs(p) { assert(r[0] == p[0]); }
            else if r.len() > 0 { assert(r[0] == p[0]); }
        }
    } else if s.len() > 0 || !p_is_empty(p) {
        lemma_push_list(p, s, fa, at0);
        let r = push_text0(p, s, fa, at0);
        if p_is_empty(p) {
            if at0 && has_colon(s) { assert(seq![sq1(46), s].drop_first() =~= seq![s]); }
            assert(n =~= Seq::<Seq<u8>>::empty());
            assert(norm_step(n, s, rel) =~= seq![s]);
        } else if fa && is_shield3(p) {
            assert(n =~= seq![sq0()]);
            assert(seq![sq0(), s] =~= seq![sq0()].push(s));
        } else {
            if l.len() > 0 && is_dot(l[0]) { assert(l.push(s).drop_first() =~= l.drop_first().push(s)); assert(l.push(s)[0] == l[0]); }
            else if l.len() > 0 { assert(l.push(s)[0] == l[0]); }
            else { }
        }
    }
}
} // verus!
verus! {
pub proof fn lemma_sym_push_shape(p: Seq<u8>, s: Seq<u8>, fa: bool, at0: bool)
    requires path_shape(p), seg_shape(s),
    ensures path_shape(sym_push_text(p, s, fa, at0)),
{
    if is_dot(s) { }
    else if is_dotdot(s) {
        if (p_is_empty(p) && !p_is_abs(p)) || (!p_is_empty(p) && is_dotdot(last_seg(p))) {
            assert(seg_shape(sq2(46, 46))) by { assert(!cls(C_SQF, 46u8)); }
            lemma_push_shape(p, sq2(46, 46), fa, at0);
        } else if !p_is_empty(p) {
            let r = p.subrange(0, pop_cut(p));
            lemma_seg_start_of(p, p_first_off(p), p.len() as int);
            assert(forall|j: int| 0 <= j < r.len() ==> #[trigger] r[j] == p[j]);
        }
    } else if s.len() > 0 || !p_is_empty(p) { lemma_push_shape(p, s, fa, at0); }
}
/// every step of the symbolic fold stays outside the corner cases of sym_step_ok
pub open spec fn sym_fold_ok(p: Seq<u8>, l: Seq<Seq<u8>>, fa: bool, at0: bool) -> bool
    decreases l.len()
{
    if l.len() == 0 { true }
    else {
        let q = sym_fold(p, l.drop_last(), fa, at0).0;
        sym_fold_ok(p, l.drop_last(), fa, at0) && sym_step_ok(q, l.last()) && !(fa && !at0 && q.len() == 0)
    }
}
/// the RFC fold continued from a given stack
pub open spec fn norm_fold_from(st: Seq<Seq<u8>>, l: Seq<Seq<u8>>, rel: bool) -> Seq<Seq<u8>>
    decreases l.len()
{
    if l.len() == 0 { st } else { norm_step(norm_fold_from(st, l.drop_last(), rel), l.last(), rel) }
}
pub proof fn lemma_norm_fold_from_normal(st: Seq<Seq<u8>>, l: Seq<Seq<u8>>, rel: bool)
    requires is_normal(st, rel),
    ensures is_normal(norm_fold_from(st, l, rel), rel),
    decreases l.len()
{
    if l.len() > 0 {
        lemma_norm_fold_from_normal(st, l.drop_last(), rel);
        lemma_norm_step_normal(norm_fold_from(st, l.drop_last(), rel), l.last(), rel);
    }
}
/// continuing the fold from a normalized stack is the fold of the concatenation (RFC 5.2.3 merge, then 5.2.4)
pub proof fn lemma_norm_fold_concat(a: Seq<Seq<u8>>, l: Seq<Seq<u8>>, rel: bool)
    ensures norm_fold(a + l, rel) =~= norm_fold_from(norm_fold(a, rel), l, rel),
    decreases l.len()
{
    if l.len() == 0 { assert(a + l =~= a); }
    else {
        assert((a + l).drop_last() =~= a + l.drop_last());
        assert((a + l).last() == l.last());
        lemma_norm_fold_concat(a, l.drop_last(), rel);
        assert(norm_fold(a + l, rel) == norm_step(norm_fold((a + l).drop_last(), rel), (a + l).last(), rel));
        assert(norm_fold(a + l.drop_last(), rel) == norm_fold_from(norm_fold(a, rel), l.drop_last(), rel));
    }
}
/// C06, merge branch on segment level: symbolically appending the segments l to a path whose segments (without the
/// shield) are normalized yields the RFC 5.2.4 / Errata 4547 fold continued over l - as long as no step hits one of the
/// stated corner cases
pub proof fn lemma_sym_fold_segs(p: Seq<u8>, l: Seq<Seq<u8>>, fa: bool, at0: bool)
    requires path_shape(p), all_segs(l), is_normal(usegs(p), !p_is_abs(p)), sym_fold_ok(p, l, fa, at0),
    ensures ({ let r = sym_fold(p, l, fa, at0).0;
        &&& usegs(r) =~= norm_fold_from(usegs(p), l, !p_is_abs(p))
        &&& p_is_abs(r) == p_is_abs(p) && path_shape(r) && is_normal(usegs(r), !p_is_abs(p)) }),
    decreases l.len()
{
    let rel = !p_is_abs(p);
    if l.len() > 0 {
        let l0 = l.drop_last();
        assert(all_segs(l0)) by { assert(forall|i: int| 0 <= i < l0.len() ==> l0[i] == l[i]); }
        lemma_sym_fold_segs(p, l0, fa, at0);
        let q = sym_fold(p, l0, fa, at0).0;
        assert(seg_shape(l.last())) by { assert(l.last() == l[l.len() - 1]); }
        lemma_sym_push_segs(q, l.last(), fa, at0);
        lemma_sym_push_shape(q, l.last(), fa, at0);
        lemma_norm_step_normal(usegs(q), l.last(), rel);
    }
}
} // verus!
verus! {
/// the text the merge branch normalises before appending: the base path without its last segment, made to fit its context
pub open spec fn res_base_dir(b: Seq<u8>) -> Seq<u8> {
    if x_has_auth(b) && p_is_empty(r_path(b)) { fit_path(r_scheme(b), r_auth(b), sq1(47)) }
    else { fit_path(r_scheme(b), r_auth(b), parent_text(r_path(b))) }
}
pub open spec fn res_dir(b: Seq<u8>) -> Seq<u8> {
    if x_has_auth(b) && p_is_empty(r_path(b)) { res_base_dir(b) } else { normalize_text(res_base_dir(b), x_has_auth(b), false) }
}
/// segments of a relative, non-empty path do not change when a '/' is put in front
pub proof fn lemma_segs_make_abs(x: Seq<u8>)
    requires x.len() > 0, x[0] != 47,
    ensures segs(make_abs(x)) =~= segs(x),
{
    let t = make_abs(x);
    assert(t[0] == 47);
    assert(t.len() == x.len() + 1);
    lemma_split_shift(t, x);
}
/// C06, merge branch (reference with a relative non-empty path), on segment level: before the final trailing-'/' and
/// set_path steps, the merged path has - without its shield - exactly the segments RFC 3986 5.2.3 + 5.2.4 (Errata 4547)
/// prescribe: the normalisation fold over (segments of the base directory text) followed by (segments of the reference).
/// Conditions: no step of the symbolic fold hits a stated corner case, and the base directory is not the shielded lone
/// empty segment.
pub proof fn lemma_res_merge_rfc(r: Seq<u8>, b: Seq<u8>)
    requires ref_shape(r), ref_shape(b), x_has_sch(b),
        !x_has_sch(r), !x_has_auth(r), r_path(r).len() > 0, r_path(r)[0] != 47,
        path_shape(res_base_dir(b)),
        !lone_empty_unshielded(res_base_dir(b), x_has_auth(b), false),
        sym_fold_ok(res_dir(b), segs(r_path(r)), x_has_auth(b), false),
    ensures ({
        let fa = x_has_auth(b);
        let bd = res_base_dir(b);
        let m = sym_fold(res_dir(b), segs(r_path(r)), fa, false).0;
        &&& usegs(m) =~= norm_fold(usegs(bd) + segs(r_path(r)), !p_is_abs(bd))
        &&& p_is_abs(m) == p_is_abs(bd)
    }),
{
    reveal(path_fits);
    let fa = x_has_auth(b);
    let bd = res_base_dir(b);
    let dir = res_dir(b);
    let rel = !p_is_abs(bd);
    let l = segs(r_path(r));
    lemma_ref_pieces(r);
    assert(path_shape(r_path(r)));
    lemma_segs_shape(r_path(r));
    // usegs(dir) == norm_fold(usegs(bd))
    if fa && p_is_empty(r_path(b)) {
        // dir == bd == "/" (an authority is present, "/" needs no change)
        assert(bd =~= sq1(47));
        assert(usegs(bd) =~= Seq::<Seq<u8>>::empty());
        assert(norm_fold(Seq::<Seq<u8>>::empty(), rel) =~= Seq::<Seq<u8>>::empty());
        assert(is_normal(usegs(dir), !p_is_abs(dir)));
    } else {
        lemma_normalize_segs(bd, fa, false);
        lemma_normalize_shape(bd, fa, false);
        lemma_norm_fold_normal(segs(bd), rel);
        let n = norm_segs(bd);
        let sh = shield_seq(bd, fa, false);
        if sh.len() > 0 { assert((sh + n).drop_first() =~= n); assert((sh + n)[0] == sq1(46)); }
        else { assert(sh + n =~= n); if n.len() > 0 { assert(!is_dot(n[0])); } }
        assert(usegs(dir) =~= n);
        // the fold ignores a leading '.' of bd
        let lb = segs(bd);
        if lb.len() > 0 && is_dot(lb[0]) {
            assert(lb =~= seq![sq1(46)] + lb.drop_first()) by { assert(lb[0] =~= sq1(46)); }
            lemma_norm_fold_dot_front(lb.drop_first(), rel);
        }
        assert(n =~= norm_fold(usegs(bd), rel));
    }
    lemma_sym_fold_segs(dir, l, fa, false);
    lemma_norm_fold_concat(usegs(bd), l, rel);
}
} // verus!
verus! {
/// the path resolve writes in the merge branch (res_merge_path, proved on the code) is: the symbolic fold m of
/// lemma_res_merge_rfc, plus the empty last segment when the reference ends in a dot segment and m is not empty
/// (the trailing '/' of RFC 5.2.4), installed by set_path (fit_path: only the documented disambiguations)
pub proof fn lemma_res_merge_unfold(r: Seq<u8>, b: Seq<u8>)
    requires r_path(r).len() > 0, r_path(r)[0] != 47,
    ensures ({
        let fa = x_has_auth(b);
        let f = sym_fold(res_dir(b), segs(r_path(r)), fa, false);
        res_merge_path(r, b) == fit_path(r_scheme(b), r_auth(b), if f.1 && !p_is_empty(f.0) { push_text(f.0, sq0(), fa, false) } else { f.0 })
    }),
{
    if x_has_auth(b) { lemma_segs_make_abs(r_path(r)); }
}
} // verus!
verus! {
/// C09, meaning of the copying variant normalized(): its text (before the trailing-'/' step) has - without the shield -
/// exactly the normalized segment sequence, as long as no step hits a stated corner case (the known finding "leading
/// empty segments are dropped" is the first of them: an empty segment pushed onto an empty path)
pub proof fn lemma_normalized_segs(p: Seq<u8>)
    requires path_shape(p),
        sym_fold_ok(if p_is_abs(p) { sq1(47) } else { sq0() }, segs(p), true, true),
    ensures ({ let init = if p_is_abs(p) { sq1(47) } else { sq0() };
        let m = sym_fold(init, segs(p), true, true).0;
        usegs(m) =~= norm_segs(p) && p_is_abs(m) == p_is_abs(p) }),
{
    let init = if p_is_abs(p) { sq1(47) } else { sq0() };
    let rel = !p_is_abs(p);
    lemma_segs_shape(p);
    assert(usegs(init) =~= Seq::<Seq<u8>>::empty());
    assert(path_shape(init));
    lemma_sym_fold_segs(init, segs(p), true, true);
    lemma_norm_fold_concat(Seq::<Seq<u8>>::empty(), segs(p), rel);
    assert(Seq::<Seq<u8>>::empty() + segs(p) =~= segs(p));
    assert(norm_fold(Seq::<Seq<u8>>::empty(), rel) =~= Seq::<Seq<u8>>::empty());
}
} // verus!
