// RFC 3986 section 3.2 decomposition of an authority, as positions in a text `s` that ENDS at
// the end of the authority and whose authority starts at `i` (i = 0 for a stand-alone one).
verus! {

pub open spec fn a_at(s: Seq<u8>, i: int) -> int { first_of(s, i, C_AT) }
pub open spec fn a_has_ui(s: Seq<u8>, i: int) -> bool { a_at(s, i) < s.len() }
pub open spec fn a_host_start(s: Seq<u8>, i: int) -> int { if a_has_ui(s, i) { a_at(s, i) + 1 } else { i } }
/// end of the host that starts at h: IP-literal = up to and including the matching ']',
/// otherwise up to the first ':'
pub open spec fn a_host_end_at(s: Seq<u8>, h: int) -> int {
    if 0 <= h && h < s.len() && s[h] == 91 {
        let rb = first_of(s, h, C_RB);
        if rb < s.len() { rb + 1 } else { s.len() as int }
    } else {
        first_of(s, h, C_COLON)
    }
}
pub open spec fn a_host_end(s: Seq<u8>, i: int) -> int { a_host_end_at(s, a_host_start(s, i)) }
pub open spec fn a_has_port(s: Seq<u8>, i: int) -> bool { a_host_end(s, i) < s.len() && s[a_host_end(s, i)] == 58 }

/// Structural consequences of the authority grammar (type invariant of authorities):
/// '[' only opens the host and is closed; nothing but ':' port follows the closing ']'; one '@' at most.
pub open spec fn auth_shape(s: Seq<u8>, i: int) -> bool {
    let at = a_at(s, i);
    let h = a_host_start(s, i);
    &&& 0 <= i <= s.len()
    &&& (forall|j: int| i <= j < s.len() && #[trigger] s[j] == 91 ==> j == h)
    &&& (forall|j: int| at < j < s.len() ==> #[trigger] s[j] != 64)
    &&& (h < s.len() && s[h] == 91 ==> {
            let rb = first_of(s, h, C_RB);
            rb < s.len() && (rb + 1 >= s.len() || s[rb + 1] == 58)
        })
}

pub proof fn lemma_auth_layout(s: Seq<u8>, i: int)
    requires 0 <= i <= s.len(),
    ensures
        i <= a_at(s, i) <= s.len(),
        i <= a_host_start(s, i) <= a_host_end(s, i) <= s.len(),
        a_has_ui(s, i) ==> s[a_at(s, i)] == 64 && a_host_start(s, i) == a_at(s, i) + 1,
{
    lemma_first_of_bounds(s, i, C_AT);
    let h = a_host_start(s, i);
    lemma_first_of_bounds(s, h, C_RB);
    lemma_first_of_bounds(s, h, C_COLON);
}

} // verus!
verus! {
pub struct Auth3 {
    pub user_info: Option<(int, int)>,
    pub host: (int, int),
    pub port: Option<(int, int)>,
}
/// RFC 3986 3.2:  authority = [ userinfo "@" ] host [ ":" port ]   for a stand-alone authority text
pub open spec fn rfc_auth(a: Seq<u8>) -> Auth3 {
    Auth3 {
        user_info: if a_has_ui(a, 0) { Some((0int, a_at(a, 0))) } else { None },
        host: (a_host_start(a, 0), a_host_end(a, 0)),
        port: if a_has_port(a, 0) { Some((a_host_end(a, 0) + 1, a.len() as int)) } else { None },
    }
}
} // verus!
verus! {
/// positions of an authority that starts at offset i of a text ending with it, in terms of the
/// stand-alone authority text
pub proof fn lemma_auth_offset(s: Seq<u8>, i: int)
    requires 0 <= i <= s.len(),
    ensures ({
        let t = s.subrange(i, s.len() as int);
        &&& a_has_ui(s, i) == a_has_ui(t, 0)
        &&& a_at(s, i) == a_at(t, 0) + i
        &&& a_host_start(s, i) == a_host_start(t, 0) + i
        &&& a_host_end(s, i) == a_host_end(t, 0) + i
        &&& a_has_port(s, i) == a_has_port(t, 0)
        &&& auth_shape(s, i) == auth_shape(t, 0)
    }),
{
    let t = s.subrange(i, s.len() as int);
    lemma_first_of_suffix(s, i, i, C_AT);
    lemma_first_of_bounds(s, i, C_AT);
    let h = a_host_start(s, i);
    lemma_first_of_suffix(s, i, h, C_RB);
    lemma_first_of_suffix(s, i, h, C_COLON);
    lemma_first_of_bounds(s, h, C_RB);
    lemma_first_of_bounds(s, h, C_COLON);
    assert(forall|j: int| 0 <= j < t.len() ==> #[trigger] t[j] == s[j + i]);
    if auth_shape(s, i) {
        assert forall|j: int| 0 <= j < t.len() && #[trigger] t[j] == 91 implies j == a_host_start(t, 0) by { assert(s[j + i] == 91); }
        assert forall|j: int| a_at(t, 0) < j < t.len() implies #[trigger] t[j] != 64 by { assert(s[j + i] != 64); }
        assert(auth_shape(t, 0));
    }
    if auth_shape(t, 0) {
        assert forall|j: int| i <= j < s.len() && #[trigger] s[j] == 91 implies j == h by { assert(t[j - i] == 91); }
        assert forall|j: int| a_at(s, i) < j < s.len() implies #[trigger] s[j] != 64 by { assert(t[j - i] != 64); }
        assert(auth_shape(s, i));
    }
}
} // verus!
