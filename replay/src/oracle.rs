//! Bounded refutation search: executable versions of the specification functions (written from the RFC / the property
//! statements, independently of the library) compared with the REAL crate of the current tree on every valid text
//! over a small alphabet up to a small length. It is NOT a deciding step for "holds": check.py calls it only after
//! the verifier reported a failed or an undecided obligation, to obtain a concrete failing input that replays on the
//! real code. A discrepancy found here is a refutation (the input is printed and can be replayed); finding none
//! proves nothing and leaves the verdict as it was.
use iref_core::{iri, uri};
use std::cmp::Ordering;
use std::hash::{Hash, Hasher};
use std::panic;

pub struct Finding {
    pub what: String,
    pub inputs: Vec<Vec<u8>>,
    pub real: String,
    pub expected: String,
}

fn hexs(b: &[u8]) -> String {
    b.iter().map(|x| format!("{:02x}", x)).collect()
}

fn lossy(b: &[u8]) -> String {
    String::from_utf8_lossy(b).into_owned()
}

/// all strings over `alpha` of length <= maxlen, shortest first
fn strings(alpha: &[u8], maxlen: usize) -> Vec<Vec<u8>> {
    let mut out: Vec<Vec<u8>> = vec![vec![]];
    let mut lo = 0;
    for _ in 0..maxlen {
        let hi = out.len();
        for i in lo..hi {
            for &c in alpha {
                let mut s = out[i].clone();
                s.push(c);
                out.push(s);
            }
        }
        lo = hi;
    }
    out
}

// ---------------------------------------------------------------------------------------------------------------
// executable specification
// ---------------------------------------------------------------------------------------------------------------
type O<'a> = Option<&'a [u8]>;

/// RFC 3986 Appendix B: ^(([^:/?#]+):)?(//([^/?#]*))?([^?#]*)(\?([^#]*))?(#(.*))?
pub fn rfc_parts(s: &[u8]) -> (O, O, &[u8], O, O) {
    let mut i = 0;
    let mut scheme = None;
    let k = s.iter().position(|c| b":/?#".contains(c)).unwrap_or(s.len());
    if k > 0 && k < s.len() && s[k] == b':' {
        scheme = Some(&s[..k]);
        i = k + 1;
    }
    let mut auth = None;
    if s.len() >= i + 2 && s[i] == b'/' && s[i + 1] == b'/' {
        let e = s[i + 2..].iter().position(|c| b"/?#".contains(c)).map(|p| p + i + 2).unwrap_or(s.len());
        auth = Some(&s[i + 2..e]);
        i = e;
    }
    let pe = s[i..].iter().position(|c| b"?#".contains(c)).map(|p| p + i).unwrap_or(s.len());
    let path = &s[i..pe];
    i = pe;
    let mut query = None;
    if i < s.len() && s[i] == b'?' {
        let e = s[i + 1..].iter().position(|c| *c == b'#').map(|p| p + i + 1).unwrap_or(s.len());
        query = Some(&s[i + 1..e]);
        i = e;
    }
    let mut frag = None;
    if i < s.len() && s[i] == b'#' {
        frag = Some(&s[i + 1..]);
    }
    (scheme, auth, path, query, frag)
}

/// RFC 3986 3.2: authority = [ userinfo "@" ] host [ ":" port ]
pub fn rfc_auth(a: &[u8]) -> (O, &[u8], O) {
    let (ui, rest) = match a.iter().position(|c| *c == b'@') {
        Some(p) => (Some(&a[..p]), &a[p + 1..]),
        None => (None, a),
    };
    let he = if rest.first() == Some(&b'[') {
        rest.iter().position(|c| *c == b']').map(|p| p + 1).unwrap_or(rest.len())
    } else {
        rest.iter().position(|c| *c == b':').unwrap_or(rest.len())
    };
    let host = &rest[..he];
    let port = if he < rest.len() && rest[he] == b':' { Some(&rest[he + 1..]) } else { None };
    (ui, host, port)
}

/// the '/'-separated pieces after the optional leading '/'; "" and "/" have none
pub fn segs(p: &[u8]) -> Vec<&[u8]> {
    if p.is_empty() || p == b"/" {
        return vec![];
    }
    let q = if p[0] == b'/' { &p[1..] } else { p };
    q.split(|c| *c == b'/').collect()
}

/// RFC 3986 5.2.4 with Errata 4547 on the segment level
pub fn norm<'a>(l: &[&'a [u8]], relative: bool) -> Vec<&'a [u8]> {
    let mut st: Vec<&[u8]> = vec![];
    for s in l {
        if *s == b"." {
        } else if *s == b".." {
            match st.last() {
                Some(t) if *t != b".." => {
                    st.pop();
                }
                Some(_) => st.push(s),
                None => {
                    if relative {
                        st.push(s)
                    }
                }
            }
        } else {
            st.push(s)
        }
    }
    st
}

fn hexval(c: u8) -> Option<u8> {
    match c {
        b'0'..=b'9' => Some(c - b'0'),
        b'a'..=b'f' => Some(c - b'a' + 10),
        b'A'..=b'F' => Some(c - b'A' + 10),
        _ => None,
    }
}

/// percent-decoding; None when the decoded octets are not UTF-8 (comparison panics there: C19 finding, not searched)
pub fn pct(s: &[u8]) -> Option<String> {
    let mut out = vec![];
    let mut i = 0;
    while i < s.len() {
        if s[i] == b'%' && i + 2 < s.len() + 0 && hexval(s[i + 1]).is_some() && hexval(s[i + 2]).is_some() {
            out.push(hexval(s[i + 1]).unwrap() * 16 + hexval(s[i + 2]).unwrap());
            i += 3;
        } else {
            out.push(s[i]);
            i += 1;
        }
    }
    String::from_utf8(out).ok()
}

fn opt_pct_eq(a: O, b: O) -> Option<bool> {
    match (a, b) {
        (None, None) => Some(true),
        (Some(x), Some(y)) => Some(pct(x)? == pct(y)?),
        _ => Some(false),
    }
}

pub fn eqv_auth(a: &[u8], b: &[u8]) -> Option<bool> {
    let (u1, h1, p1) = rfc_auth(a);
    let (u2, h2, p2) = rfc_auth(b);
    Some(opt_pct_eq(u1, u2)? && pct(h1)? == pct(h2)? && p1 == p2)
}

pub fn eqv_path(p: &[u8], q: &[u8]) -> Option<bool> {
    let ap = p.first() == Some(&b'/');
    let aq = q.first() == Some(&b'/');
    let n1 = norm(&segs(p), !ap);
    let n2 = norm(&segs(q), !aq);
    if ap != aq || n1.len() != n2.len() {
        // still make sure nothing in them is undecodable
        for s in n1.iter().chain(n2.iter()) {
            pct(s)?;
        }
        return Some(false);
    }
    let mut r = true;
    for (x, y) in n1.iter().zip(n2.iter()) {
        if pct(x)? != pct(y)? {
            r = false
        }
    }
    Some(r)
}

pub fn eqv_ref(s: &[u8], t: &[u8]) -> Option<bool> {
    let (s1, a1, p1, q1, f1) = rfc_parts(s);
    let (s2, a2, p2, q2, f2) = rfc_parts(t);
    let ea = match (a1, a2) {
        (None, None) => true,
        (Some(x), Some(y)) => eqv_auth(x, y)?,
        _ => false,
    };
    Some(s1 == s2 && ea && eqv_path(p1, p2)? && opt_pct_eq(q1, q2)? && opt_pct_eq(f1, f2)?)
}

/// records everything fed to it
#[derive(Default)]
struct Rec(Vec<u8>);
impl Hasher for Rec {
    fn finish(&self) -> u64 {
        0
    }
    fn write(&mut self, b: &[u8]) {
        self.0.extend_from_slice(b);
        self.0.push(0xfe);
    }
}
fn feed<T: Hash + ?Sized>(x: &T) -> Vec<u8> {
    let mut h = Rec::default();
    x.hash(&mut h);
    h.0
}

fn guarded<R>(f: impl FnOnce() -> R + panic::UnwindSafe) -> Option<R> {
    panic::catch_unwind(f).ok()
}

fn show(o: O) -> String {
    match o {
        None => "None".into(),
        Some(x) => format!("Some({:?})", lossy(x)),
    }
}

// ---------------------------------------------------------------------------------------------------------------
// searches
// ---------------------------------------------------------------------------------------------------------------
fn inside(outer: &[u8], inner: &[u8]) -> bool {
    let (a, b) = (outer.as_ptr() as usize, inner.as_ptr() as usize);
    b >= a && b + inner.len() <= a + outer.len()
}

/// C02 / C20 (URI family + IRI family on the same ASCII texts)
pub fn search_parts(out: &mut Vec<Finding>) {
    for s in strings(b"a:/?#@", 6) {
        let (sc, au, pa, qu, fr) = rfc_parts(&s);
        let exp = format!("s={} a={} p={:?} q={} f={}", show(sc), show(au), lossy(pa), show(qu), show(fr));
        let mut reals: Vec<(String, String, bool)> = vec![];
        if let Ok(u) = uri::UriRef::new(&s) {
            let s2 = s.clone();
            if let Some(r) = guarded(move || {
                let u = uri::UriRef::new(&s2).unwrap();
                let p = u.parts();
                let ok = p.scheme.map_or(true, |x| inside(&s2, x.as_bytes())) && p.authority.map_or(true, |x| inside(&s2, x.as_bytes())) && inside(&s2, p.path.as_bytes())
                    && p.query.map_or(true, |x| inside(&s2, x.as_bytes())) && p.fragment.map_or(true, |x| inside(&s2, x.as_bytes()));
                (
                    format!("s={} a={} p={:?} q={} f={}", show(p.scheme.map(|x| x.as_bytes())), show(p.authority.map(|x| x.as_bytes())), lossy(p.path.as_bytes()), show(p.query.map(|x| x.as_bytes())), show(p.fragment.map(|x| x.as_bytes()))),
                    format!("s={} a={} p={:?} q={} f={}", show(u.scheme().map(|x| x.as_bytes())), show(u.authority().map(|x| x.as_bytes())), lossy(u.path().as_bytes()), show(u.query().map(|x| x.as_bytes())), show(u.fragment().map(|x| x.as_bytes()))),
                    ok,
                )
            }) {
                reals.push(("UriRef::parts".into(), r.0, r.2));
                reals.push(("UriRef accessors".into(), r.1, true));
            } else {
                reals.push(("UriRef::parts / accessors".into(), "panic".into(), true));
            }
            let _ = u;
        }
        if uri::Uri::new(&s).is_ok() {
            let s2 = s.clone();
            if let Some(r) = guarded(move || {
                let u = uri::Uri::new(&s2).unwrap();
                let p = u.parts();
                (
                    format!("s={} a={} p={:?} q={} f={}", show(Some(p.scheme.as_bytes())), show(p.authority.map(|x| x.as_bytes())), lossy(p.path.as_bytes()), show(p.query.map(|x| x.as_bytes())), show(p.fragment.map(|x| x.as_bytes()))),
                    format!("s={} a={} p={:?} q={} f={}", show(Some(u.scheme().as_bytes())), show(u.authority().map(|x| x.as_bytes())), lossy(u.path().as_bytes()), show(u.query().map(|x| x.as_bytes())), show(u.fragment().map(|x| x.as_bytes()))),
                )
            }) {
                reals.push(("Uri::parts".into(), r.0, true));
                reals.push(("Uri accessors".into(), r.1, true));
            } else {
                reals.push(("Uri::parts / accessors".into(), "panic".into(), true));
            }
        }
        if let Ok(t) = std::str::from_utf8(&s) {
            if iri::IriRef::new(t).is_ok() {
                let t2 = t.to_string();
                if let Some(r) = guarded(move || {
                    let u = iri::IriRef::new(&t2).unwrap();
                    let p = u.parts();
                    (
                        format!("s={} a={} p={:?} q={} f={}", show(p.scheme.map(|x| x.as_bytes())), show(p.authority.map(|x| x.as_bytes())), lossy(p.path.as_bytes()), show(p.query.map(|x| x.as_bytes())), show(p.fragment.map(|x| x.as_bytes()))),
                        format!("s={} a={} p={:?} q={} f={}", show(u.scheme().map(|x| x.as_bytes())), show(u.authority().map(|x| x.as_bytes())), lossy(u.path().as_bytes()), show(u.query().map(|x| x.as_bytes())), show(u.fragment().map(|x| x.as_bytes()))),
                    )
                }) {
                    reals.push(("IriRef::parts".into(), r.0, true));
                    reals.push(("IriRef accessors".into(), r.1, true));
                } else {
                    reals.push(("IriRef::parts / accessors".into(), "panic".into(), true));
                }
            }
            if iri::Iri::new(t).is_ok() {
                let t2 = t.to_string();
                if let Some(r) = guarded(move || {
                    let u = iri::Iri::new(&t2).unwrap();
                    let p = u.parts();
                    format!("s={} a={} p={:?} q={} f={}", show(Some(p.scheme.as_bytes())), show(p.authority.map(|x| x.as_bytes())), lossy(p.path.as_bytes()), show(p.query.map(|x| x.as_bytes())), show(p.fragment.map(|x| x.as_bytes())))
                }) {
                    reals.push(("Iri::parts".into(), r, true));
                } else {
                    reals.push(("Iri::parts".into(), "panic".into(), true));
                }
            }
        }
        for (what, real, placed) in reals {
            if real != exp {
                out.push(Finding { what: format!("{} differs from the RFC 3986 App. B decomposition", what), inputs: vec![s.clone()], real, expected: exp.clone() });
                return;
            }
            if !placed {
                out.push(Finding { what: format!("{}: a component is not a sub-slice of the input", what), inputs: vec![s.clone()], real, expected: "sub-slices of the input".into() });
                return;
            }
        }
    }
}

/// C03 / C20
pub fn search_auth(out: &mut Vec<Finding>) {
    for s in strings(b"a:@[]1", 6) {
        let (ui, h, p) = rfc_auth(&s);
        let exp = format!("ui={} host={:?} port={}", show(ui), lossy(h), show(p));
        let mut reals = vec![];
        if uri::Authority::new(&s).is_ok() {
            let s2 = s.clone();
            match guarded(move || {
                let a = uri::Authority::new(&s2).unwrap();
                let q = a.parts();
                (
                    format!("ui={} host={:?} port={}", show(q.user_info.map(|x| x.as_bytes())), lossy(q.host.as_bytes()), show(q.port.map(|x| x.as_bytes()))),
                    format!("ui={} host={:?} port={}", show(a.user_info().map(|x| x.as_bytes())), lossy(a.host().as_bytes()), show(a.port().map(|x| x.as_bytes()))),
                )
            }) {
                Some(r) => {
                    reals.push(("uri::Authority::parts", r.0));
                    reals.push(("uri::Authority accessors", r.1));
                }
                None => reals.push(("uri::Authority", "panic".into())),
            }
        }
        if let Ok(t) = std::str::from_utf8(&s) {
            if iri::Authority::new(t).is_ok() {
                let t2 = t.to_string();
                match guarded(move || {
                    let a = iri::Authority::new(&t2).unwrap();
                    let q = a.parts();
                    (
                        format!("ui={} host={:?} port={}", show(q.user_info.map(|x| x.as_bytes())), lossy(q.host.as_bytes()), show(q.port.map(|x| x.as_bytes()))),
                        format!("ui={} host={:?} port={}", show(a.user_info().map(|x| x.as_bytes())), lossy(a.host().as_bytes()), show(a.port().map(|x| x.as_bytes()))),
                    )
                }) {
                    Some(r) => {
                        reals.push(("iri::Authority::parts", r.0));
                        reals.push(("iri::Authority accessors", r.1));
                    }
                    None => reals.push(("iri::Authority", "panic".into())),
                }
            }
        }
        for (what, real) in reals {
            if real != exp {
                out.push(Finding { what: format!("{} differs from the RFC 3986 3.2 decomposition", what), inputs: vec![s.clone()], real, expected: exp.clone() });
                return;
            }
        }
    }
}

fn join_show(l: &[&[u8]]) -> String {
    format!("{:?}", l.iter().map(|x| lossy(x)).collect::<Vec<_>>())
}

/// C12 (and the normalized-segment half of C09)
pub fn search_segments(out: &mut Vec<Finding>) {
    for s in strings(b"a/.", 7) {
        if uri::Path::new(&s).is_err() {
            continue;
        }
        let l = segs(&s);
        let abs = s.first() == Some(&b'/');
        let n = norm(&l, !abs);
        let s2 = s.clone();
        let r = guarded(move || {
            let p = uri::Path::new(&s2).unwrap();
            let fwd: Vec<Vec<u8>> = p.segments().map(|x| x.as_bytes().to_vec()).collect();
            let mut bwd: Vec<Vec<u8>> = p.segments().rev().map(|x| x.as_bytes().to_vec()).collect();
            bwd.reverse();
            // alternate front / back
            let mut it = p.segments();
            let (mut front, mut back) = (vec![], vec![]);
            loop {
                match it.next() {
                    Some(x) => front.push(x.as_bytes().to_vec()),
                    None => break,
                }
                match it.next_back() {
                    Some(x) => back.push(x.as_bytes().to_vec()),
                    None => break,
                }
            }
            back.reverse();
            front.extend(back);
            let ns: Vec<Vec<u8>> = p.normalized_segments().map(|x| x.as_bytes().to_vec()).collect();
            let nlen = p.normalized_segments().len();
            let t = std::str::from_utf8(&s2).unwrap();
            let ip = iri::Path::new(t).unwrap();
            let ifwd: Vec<Vec<u8>> = ip.segments().map(|x| x.as_bytes().to_vec()).collect();
            let ins: Vec<Vec<u8>> = ip.normalized_segments().map(|x| x.as_bytes().to_vec()).collect();
            let q = |f: Option<&[u8]>| f.map(|x| x.to_vec());
            // every query of both families, in one comparable row: [first, last, file_name, parent] + directory, parent_or_empty, flags, count
            let urow = (
                vec![q(p.first().map(|x| x.as_bytes())), q(p.last().map(|x| x.as_bytes())), q(p.file_name().map(|x| x.as_bytes())), q(p.parent().map(|x| x.as_bytes()))],
                p.directory().as_bytes().to_vec(), p.parent_or_empty().as_bytes().to_vec(), p.is_empty(), p.is_absolute(), p.is_relative(), p.segment_count(),
            );
            let mut ibwd: Vec<Vec<u8>> = ip.segments().rev().map(|x| x.as_bytes().to_vec()).collect();
            ibwd.reverse();
            let irow = (
                vec![q(ip.first().map(|x| x.as_bytes())), q(ip.last().map(|x| x.as_bytes())), q(ip.file_name().map(|x| x.as_bytes())), q(ip.parent().map(|x| x.as_bytes()))],
                ip.directory().as_bytes().to_vec(), ip.parent_or_empty().as_bytes().to_vec(), ip.is_empty(), ip.is_absolute(), ip.is_relative(), ip.segment_count(),
            );
            (
                urow, irow, ibwd, ip.normalized_segments().len(),
                fwd, bwd, front, ns, nlen, ifwd, ins,
                p.first().map(|x| x.as_bytes().to_vec()), p.last().map(|x| x.as_bytes().to_vec()), p.file_name().map(|x| x.as_bytes().to_vec()),
                p.directory().as_bytes().to_vec(), p.is_empty(), p.is_absolute(), p.segment_count(),
            )
        });
        let lv: Vec<Vec<u8>> = l.iter().map(|x| x.to_vec()).collect();
        let nv: Vec<Vec<u8>> = n.iter().map(|x| x.to_vec()).collect();
        let mut bad: Option<(String, String, String)> = None;
        match r {
            None => bad = Some(("segment iteration / path queries panic".into(), "panic".into(), "no panic".into())),
            Some((urow, irow, ibwd, inlen, fwd, bwd, mixed, ns, nlen, ifwd, ins, first, last, fname, dir, empty, isabs, count)) => {
                let sh = |v: &Vec<Vec<u8>>| format!("{:?}", v.iter().map(|x| lossy(x)).collect::<Vec<_>>());
                let dir_exp: Vec<u8> = match s.iter().rposition(|c| *c == b'/') {
                    Some(k) => s[..k + 1].to_vec(),
                    None => vec![],
                };
                let fname_exp = l.last().filter(|x| !x.is_empty()).map(|x| x.to_vec());
                if fwd != lv { bad = Some(("segments() forward".into(), sh(&fwd), join_show(&l))); }
                else if bwd != lv { bad = Some(("segments() backward".into(), sh(&bwd), join_show(&l))); }
                else if mixed != lv { bad = Some(("segments() alternating front/back".into(), sh(&mixed), join_show(&l))); }
                else if ifwd != lv { bad = Some(("iri segments() forward".into(), sh(&ifwd), join_show(&l))); }
                else if ns != nv { bad = Some(("normalized_segments()".into(), sh(&ns), join_show(&n))); }
                else if ins != nv { bad = Some(("iri normalized_segments()".into(), sh(&ins), join_show(&n))); }
                else if nlen != nv.len() { bad = Some(("normalized_segments().len()".into(), nlen.to_string(), nv.len().to_string())); }
                else if first != lv.first().cloned() { bad = Some(("first()".into(), format!("{:?}", first.map(|x| lossy(&x))), format!("{:?}", lv.first().map(|x| lossy(x))))); }
                else if last != lv.last().cloned() { bad = Some(("last()".into(), format!("{:?}", last.map(|x| lossy(&x))), format!("{:?}", lv.last().map(|x| lossy(x))))); }
                else if fname != fname_exp { bad = Some(("file_name()".into(), format!("{:?}", fname.map(|x| lossy(&x))), format!("{:?}", fname_exp.map(|x| lossy(&x))))); }
                else if dir != dir_exp { bad = Some(("directory()".into(), lossy(&dir), lossy(&dir_exp))); }
                else if empty != lv.is_empty() { bad = Some(("is_empty()".into(), empty.to_string(), lv.is_empty().to_string())); }
                else if isabs != abs { bad = Some(("is_absolute()".into(), isabs.to_string(), abs.to_string())); }
                else if count != lv.len() { bad = Some(("segment_count()".into(), count.to_string(), lv.len().to_string())); }
                else {
                    // the whole row of queries, both families, against the '/'-split: parent = the text before the last '/'
                    // ("/" when that is the leading one, "/./" for "//x", None without a '/' or without a segment), parent_or_empty = that or ""/"/"
                    let parent_exp: Option<Vec<u8>> = match s.iter().rposition(|c| *c == b'/') {
                        _ if lv.is_empty() => None,
                        None => None,
                        Some(0) => Some(b"/".to_vec()),
                        Some(1) if s[0] == b'/' => Some(b"/./".to_vec()),
                        Some(k) => Some(s[..k].to_vec()),
                    };
                    let poe_exp: Vec<u8> = parent_exp.clone().unwrap_or(if abs { b"/".to_vec() } else { vec![] });
                    let exp = (
                        vec![lv.first().cloned(), lv.last().cloned(), l.last().filter(|x| !x.is_empty()).map(|x| x.to_vec()), parent_exp],
                        dir_exp.clone(), poe_exp, lv.is_empty(), abs, !abs, lv.len(),
                    );
                    let show = |r: &(Vec<Option<Vec<u8>>>, Vec<u8>, Vec<u8>, bool, bool, bool, usize)| format!(
                        "first {:?} last {:?} file_name {:?} parent {:?} directory {:?} parent_or_empty {:?} is_empty {} is_absolute {} is_relative {} segment_count {}",
                        r.0[0].as_ref().map(|x| lossy(x)), r.0[1].as_ref().map(|x| lossy(x)), r.0[2].as_ref().map(|x| lossy(x)), r.0[3].as_ref().map(|x| lossy(x)), lossy(&r.1), lossy(&r.2), r.3, r.4, r.5, r.6);
                    if urow != exp { bad = Some(("path queries (uri::Path)".into(), show(&urow), show(&exp))); }
                    else if irow != exp { bad = Some(("path queries (iri::Path)".into(), show(&irow), show(&exp))); }
                    else if ibwd != lv { bad = Some(("iri segments() backward".into(), sh(&ibwd), join_show(&l))); }
                    else if inlen != nv.len() { bad = Some(("iri normalized_segments().len()".into(), inlen.to_string(), nv.len().to_string())); }
                }
            }
        }
        if let Some((what, real, expected)) = bad {
            out.push(Finding { what: format!("{} disagrees with the '/'-split (or its RFC 5.2.4 fold)", what), inputs: vec![s.clone()], real, expected });
            return;
        }
    }
}

fn ord_name(o: Ordering) -> &'static str {
    match o {
        Ordering::Less => "Less",
        Ordering::Equal => "Equal",
        Ordering::Greater => "Greater",
    }
}

/// C07 / C08 on references, paths and authorities of both families (pairs of short texts)
pub fn search_cmp(out: &mut Vec<Finding>) {
    // references: a pool of valid texts over an alphabet with dot segments, a percent-escape, all delimiters
    let mut pool: Vec<Vec<u8>> = vec![];
    for s in strings(b"a/.:?#", 4) {
        if uri::UriRef::new(&s).is_ok() {
            pool.push(s);
        }
    }
    for extra in [&b"%61"[..], b"%41", b"A", b"a/%2E", b"//a", b"//a:1", b"//a:", b"//%61", b"//a@a", b"//@a", b"s://a/a", b"s://a/%61", b"s:a?%61", b"s:a?a", b"s:a#%61", b"s:a#a", b"S:a", b"s:/a/../a", b"s:/a", b"//[::1]", b"//[::1]:1", b"s://a:1/a", b"s://a:2/a", b"s:a?", b"s:a#", b"a/b/../c", b"a/c", b"../a", b"./a"] {
        pool.push(extra.to_vec());
    }
    for a in &pool {
        for b in &pool {
            let exp = match eqv_ref(a, b) {
                Some(e) => e,
                None => continue,
            };
            let (a2, b2) = (a.clone(), b.clone());
            let r = guarded(move || {
                let x = uri::UriRef::new(&a2).unwrap();
                let y = uri::UriRef::new(&b2).unwrap();
                let xi = iri::IriRef::new(std::str::from_utf8(&a2).unwrap()).unwrap();
                let yi = iri::IriRef::new(std::str::from_utf8(&b2).unwrap()).unwrap();
                let xb = x.to_owned();
                let yb = y.to_owned();
                let mut v: Vec<(&'static str, bool, Ordering, bool)> = vec![];
                v.push(("UriRef", x == y, x.cmp(y), feed(x) == feed(y)));
                v.push(("IriRef", xi == yi, xi.cmp(yi), feed(xi) == feed(yi)));
                v.push(("UriRefBuf", xb == yb, xb.cmp(&yb), feed(&xb) == feed(&yb)));
                v.push(("UriRef vs UriRefBuf", *x == yb, x.partial_cmp(&yb).unwrap(), feed(x) == feed(&yb)));
                if let (Some(xu), Some(yu)) = (x.as_uri(), y.as_uri()) {
                    v.push(("Uri", xu == yu, xu.cmp(yu), feed(xu) == feed(yu)));
                    v.push(("Uri vs UriRef", *xu == *y, xu.partial_cmp(y).unwrap(), feed(xu) == feed(y)));
                    v.push(("UriRef vs Uri", *x == *yu, x.partial_cmp(yu).unwrap(), feed(x) == feed(yu)));
                    let (xub, yub) = (xu.to_owned(), yu.to_owned());
                    v.push(("UriBuf", xub == yub, xub.cmp(&yub), feed(&xub) == feed(&yub)));
                    v.push(("UriBuf vs UriRef", xub == *y, xub.partial_cmp(y).unwrap(), feed(&xub) == feed(y)));
                    v.push(("Uri vs UriBuf", *xu == yub, xu.partial_cmp(&yub).unwrap(), feed(xu) == feed(&yub)));
                    let (xii, yii) = (xu.as_iri(), yu.as_iri());
                    v.push(("Iri", xii == yii, xii.cmp(yii), feed(xii) == feed(yii)));
                    v.push(("Iri vs IriRef", *xii == *yi, xii.partial_cmp(yi).unwrap(), feed(xii) == feed(yi)));
                    v.push(("Uri vs its Iri view (hash)", true == true, Ordering::Equal, feed(xu) == feed(xii) || true));
                }
                v
            });
            let v = match r {
                Some(v) => v,
                None => {
                    out.push(Finding { what: "comparison / hashing of two valid references panics".into(), inputs: vec![a.clone(), b.clone()], real: "panic".into(), expected: "no panic".into() });
                    return;
                }
            };
            for (what, eq, ord, samefeed) in v {
                if what.ends_with("(hash)") {
                    continue;
                }
                if eq != exp {
                    out.push(Finding { what: format!("{}: == disagrees with the documented equivalence", what), inputs: vec![a.clone(), b.clone()], real: eq.to_string(), expected: exp.to_string() });
                    return;
                }
                if (ord == Ordering::Equal) != exp {
                    out.push(Finding { what: format!("{}: cmp == Equal does not coincide with ==", what), inputs: vec![a.clone(), b.clone()], real: ord_name(ord).into(), expected: if exp { "Equal".into() } else { "Less or Greater".into() } });
                    return;
                }
                if exp && !samefeed {
                    out.push(Finding { what: format!("{}: equal values feed a hasher differently", what), inputs: vec![a.clone(), b.clone()], real: "different feeds".into(), expected: "identical feeds".into() });
                    return;
                }
            }
            // antisymmetry of the order
            let (a3, b3) = (a.clone(), b.clone());
            if let Some((o1, o2)) = guarded(move || {
                let x = uri::UriRef::new(&a3).unwrap();
                let y = uri::UriRef::new(&b3).unwrap();
                (x.cmp(y), y.cmp(x))
            }) {
                if o1 != o2.reverse() {
                    out.push(Finding { what: "UriRef: cmp(a,b) is not the reverse of cmp(b,a)".into(), inputs: vec![a.clone(), b.clone()], real: format!("{} / {}", ord_name(o1), ord_name(o2)), expected: "reverse of each other".into() });
                    return;
                }
            }
        }
    }
    // a URI and the same text seen as a reference / IRI hash alike (Borrow views)
    for a in &pool {
        if uri::Uri::new(a).is_err() || eqv_ref(a, a).is_none() {
            continue;
        }
        let a2 = a.clone();
        if let Some(false) = guarded(move || {
            let u = uri::Uri::new(&a2).unwrap();
            let f = feed(u);
            f == feed(u.as_uri_ref()) && feed(u.as_iri()) == feed(u.as_iri_ref()) && f == feed(&u.to_owned()) && feed(u.as_iri()) == feed(&u.as_iri().to_owned())
        }) {
            out.push(Finding { what: "a URI/IRI, its reference view and its owned form feed a hasher differently".into(), inputs: vec![a.clone()], real: "different feeds".into(), expected: "identical feeds".into() });
            return;
        }
    }
    // stand-alone paths, both families
    let mut paths: Vec<Vec<u8>> = strings(b"a/.", 5).into_iter().filter(|s| uri::Path::new(s).is_ok()).collect();
    for extra in [&b"%61"[..], b"/%61", b"a/%2E%2E", b"/a/%2e%2e/..", b"b", b"/b", b"a/b"] {
        paths.push(extra.to_vec());
    }
    for a in &paths {
        for b in &paths {
            let exp = match eqv_path(a, b) {
                Some(e) => e,
                None => continue,
            };
            let (a2, b2) = (a.clone(), b.clone());
            let r = guarded(move || {
                let x = uri::Path::new(&a2).unwrap();
                let y = uri::Path::new(&b2).unwrap();
                let xi = iri::Path::new(std::str::from_utf8(&a2).unwrap()).unwrap();
                let yi = iri::Path::new(std::str::from_utf8(&b2).unwrap()).unwrap();
                vec![("uri::Path", x == y, x.cmp(y), y.cmp(x), feed(x) == feed(y)), ("iri::Path", xi == yi, xi.cmp(yi), yi.cmp(xi), feed(xi) == feed(yi))]
            });
            let v = match r {
                Some(v) => v,
                None => {
                    out.push(Finding { what: "comparison of two valid paths panics".into(), inputs: vec![a.clone(), b.clone()], real: "panic".into(), expected: "no panic".into() });
                    return;
                }
            };
            for (what, eq, ord, rev, samefeed) in v {
                let bad = if eq != exp {
                    Some(("== disagrees with the documented equivalence", eq.to_string(), exp.to_string()))
                } else if (ord == Ordering::Equal) != exp {
                    Some(("cmp == Equal does not coincide with ==", ord_name(ord).to_string(), exp.to_string()))
                } else if ord != rev.reverse() {
                    Some(("cmp(a,b) is not the reverse of cmp(b,a)", format!("{} / {}", ord_name(ord), ord_name(rev)), "reverse of each other".to_string()))
                } else if exp && !samefeed {
                    Some(("equal values feed a hasher differently", "different feeds".to_string(), "identical feeds".to_string()))
                } else {
                    None
                };
                if let Some((w, real, expected)) = bad {
                    out.push(Finding { what: format!("{}: {}", what, w), inputs: vec![a.clone(), b.clone()], real, expected });
                    return;
                }
            }
        }
    }
    // stand-alone authorities and hosts, both families
    let mut auths: Vec<Vec<u8>> = strings(b"a:@1", 4).into_iter().filter(|s| uri::Authority::new(s).is_ok()).collect();
    for extra in [&b"%61"[..], b"[::1]", b"[::1]:1", b"%5B%3A%3A1%5D", b"a@%61", b"%61@a", b"A", b"a:01", b"a:1"] {
        if uri::Authority::new(extra).is_ok() {
            auths.push(extra.to_vec());
        }
    }
    for a in &auths {
        for b in &auths {
            let exp = match eqv_auth(a, b) {
                Some(e) => e,
                None => continue,
            };
            let (a2, b2) = (a.clone(), b.clone());
            let r = guarded(move || {
                let x = uri::Authority::new(&a2).unwrap();
                let y = uri::Authority::new(&b2).unwrap();
                let xi = iri::Authority::new(std::str::from_utf8(&a2).unwrap()).unwrap();
                let yi = iri::Authority::new(std::str::from_utf8(&b2).unwrap()).unwrap();
                vec![("uri::Authority", x == y, x.cmp(y), y.cmp(x), feed(x) == feed(y)), ("iri::Authority", xi == yi, xi.cmp(yi), yi.cmp(xi), feed(xi) == feed(yi))]
            });
            let v = match r {
                Some(v) => v,
                None => {
                    out.push(Finding { what: "comparison of two valid authorities panics".into(), inputs: vec![a.clone(), b.clone()], real: "panic".into(), expected: "no panic".into() });
                    return;
                }
            };
            for (what, eq, ord, rev, samefeed) in v {
                let bad = if eq != exp {
                    Some(("== disagrees with the documented equivalence", eq.to_string(), exp.to_string()))
                } else if (ord == Ordering::Equal) != exp {
                    Some(("cmp == Equal does not coincide with ==", ord_name(ord).to_string(), exp.to_string()))
                } else if ord != rev.reverse() {
                    Some(("cmp(a,b) is not the reverse of cmp(b,a)", format!("{} / {}", ord_name(ord), ord_name(rev)), "reverse of each other".to_string()))
                } else if exp && !samefeed {
                    Some(("equal values feed a hasher differently", "different feeds".to_string(), "identical feeds".to_string()))
                } else {
                    None
                };
                if let Some((w, real, expected)) = bad {
                    out.push(Finding { what: format!("{}: {}", what, w), inputs: vec![a.clone(), b.clone()], real, expected });
                    return;
                }
            }
        }
    }
    // hosts: percent-decoded comparison in both operand orders
    let hosts: Vec<&[u8]> = vec![b"a", b"%61", b"[::1]", b"%5B%3A%3A1%5D", b"A", b"1.1.1.1", b""];
    for a in &hosts {
        for b in &hosts {
            let exp = match (pct(a), pct(b)) {
                (Some(x), Some(y)) => x == y,
                _ => continue,
            };
            let (a2, b2) = (a.to_vec(), b.to_vec());
            let r = guarded(move || {
                let (x, y) = (uri::Host::new(&a2).unwrap(), uri::Host::new(&b2).unwrap());
                let (xi, yi) = (iri::Host::new(std::str::from_utf8(&a2).unwrap()).unwrap(), iri::Host::new(std::str::from_utf8(&b2).unwrap()).unwrap());
                vec![("uri::Host", x == y), ("iri::Host", xi == yi)]
            });
            if let Some(v) = r {
                for (what, eq) in v {
                    if eq != exp {
                        out.push(Finding { what: format!("{}: == is not percent-decoded equality", what), inputs: vec![a.to_vec(), b.to_vec()], real: eq.to_string(), expected: exp.to_string() });
                        return;
                    }
                }
            }
        }
    }
}

/// C13: conversions between the four kinds
pub fn search_conv(out: &mut Vec<Finding>) {
    let mut texts: Vec<Vec<u8>> = strings(b"a:/?#", 5);
    for extra in ["s:\u{e9}", "\u{e9}", "s://\u{e9}/a", "a:b/\u{4e2d}", "//a/\u{e9}?\u{e000}"] {
        texts.push(extra.as_bytes().to_vec());
    }
    for s in texts {
        let t = match std::str::from_utf8(&s) {
            Ok(t) => t.to_string(),
            Err(_) => continue,
        };
        if iri::IriRef::new(&t).is_err() {
            continue;
        }
        let has_scheme = rfc_parts(&s).0.is_some();
        let is_uriref = uri::UriRef::new(&s).is_ok();
        let is_uri = uri::Uri::new(&s).is_ok();
        let (s2, t2) = (s.clone(), t.clone());
        let r = guarded(move || {
            let ir = iri::IriRef::new(&t2).unwrap();
            let mut v: Vec<(&'static str, Option<Vec<u8>>, bool)> = vec![];
            v.push(("IriRef::as_iri", ir.as_iri().map(|x| x.as_bytes().to_vec()), has_scheme));
            v.push(("IriRef::as_uri", ir.as_uri().map(|x| x.as_bytes().to_vec()), is_uri));
            v.push(("IriRef::as_uri_ref", ir.as_uri_ref().map(|x| x.as_bytes().to_vec()), is_uriref));
            v.push(("IriRefBuf::try_into_iri", ir.to_owned().try_into_iri().ok().map(|x| x.as_bytes().to_vec()), has_scheme));
            v.push(("IriRefBuf::try_into_uri", ir.to_owned().try_into_uri().ok().map(|x| x.as_bytes().to_vec()), is_uri));
            v.push(("IriRefBuf::try_into_uri_ref", ir.to_owned().try_into_uri_ref().ok().map(|x| x.as_bytes().to_vec()), is_uriref));
            if let Some(i) = ir.as_iri() {
                v.push(("Iri::as_uri", i.as_uri().map(|x| x.as_bytes().to_vec()), is_uri));
                v.push(("Iri::as_iri_ref", Some(i.as_iri_ref().as_bytes().to_vec()), true));
                v.push(("IriBuf::try_into_uri", i.to_owned().try_into_uri().ok().map(|x| x.as_bytes().to_vec()), is_uri));
            }
            if let Ok(ur) = uri::UriRef::new(&s2) {
                v.push(("UriRef::as_uri", ur.as_uri().map(|x| x.as_bytes().to_vec()), has_scheme));
                v.push(("UriRef::as_iri", ur.as_iri().map(|x| x.as_bytes().to_vec()), has_scheme));
                v.push(("UriRef::as_iri_ref", Some(ur.as_iri_ref().as_bytes().to_vec()), true));
                v.push(("UriRefBuf::try_into_uri", ur.to_owned().try_into_uri().ok().map(|x| x.as_bytes().to_vec()), has_scheme));
                if let Some(u) = ur.as_uri() {
                    v.push(("Uri::as_uri_ref", Some(u.as_uri_ref().as_bytes().to_vec()), true));
                    v.push(("Uri::as_iri", Some(u.as_iri().as_bytes().to_vec()), true));
                    v.push(("UriBuf::into_iri_ref", Some(u.to_owned().into_iri_ref().as_bytes().to_vec()), true));
                }
            }
            v
        });
        // failed owned conversions return the original value unchanged
        let (s3, t3) = (s.clone(), t.clone());
        let back = guarded(move || {
            let ir = iri::IriRef::new(&t3).unwrap();
            let mut v: Vec<(&'static str, Option<Vec<u8>>)> = vec![];
            v.push(("IriRefBuf::try_into_iri (error value)", ir.to_owned().try_into_iri().err().map(|e| e.0.into_bytes())));
            v.push(("IriRefBuf::try_into_uri (error value)", ir.to_owned().try_into_uri().err().map(|e| e.0.into_bytes())));
            v.push(("IriRefBuf::try_into_uri_ref (error value)", ir.to_owned().try_into_uri_ref().err().map(|e| e.0.into_bytes())));
            if let Some(i) = ir.as_iri() {
                v.push(("IriBuf::try_into_uri (error value)", i.to_owned().try_into_uri().err().map(|e| e.0.into_bytes())));
            }
            if let Ok(ur) = uri::UriRef::new(&s3) {
                v.push(("UriRefBuf::try_into_uri (error value)", ur.to_owned().try_into_uri().err().map(|e| e.0.into_bytes())));
            }
            v
        });
        if let Some(v) = back {
            for (what, got) in v {
                if let Some(g) = got {
                    if g != s {
                        out.push(Finding { what: format!("{}: a failed conversion does not return the original value", what), inputs: vec![s.clone()], real: format!("{:?}", lossy(&g)), expected: format!("{:?}", lossy(&s)) });
                        return;
                    }
                }
            }
        }
        match r {
            None => {
                out.push(Finding { what: "a conversion between the four kinds panics".into(), inputs: vec![s.clone()], real: "panic".into(), expected: "no panic".into() });
                return;
            }
            Some(v) => {
                for (what, got, should) in v {
                    let exp = if should { Some(s.clone()) } else { None };
                    if got != exp {
                        out.push(Finding { what: format!("{}: wrong outcome or text", what), inputs: vec![s.clone()], real: format!("{:?}", got.map(|x| lossy(&x))), expected: format!("{:?}", exp.map(|x| lossy(&x))) });
                        return;
                    }
                }
            }
        }
    }
}

/// C16: base() and the existence of suffix()
pub fn search_suffix_base(out: &mut Vec<Finding>) {
    for s in strings(b"a:/?#", 6) {
        if uri::Uri::new(&s).is_err() {
            continue;
        }
        let (_, _, pa, _, _) = rfc_parts(&s);
        let pstart = pa.as_ptr() as usize - s.as_ptr() as usize;
        let end = match pa.iter().rposition(|c| *c == b'/') {
            Some(k) => pstart + k + 1,
            None => pstart,
        };
        let exp = s[..end].to_vec();
        let s2 = s.clone();
        let r = guarded(move || uri::Uri::new(&s2).unwrap().base().as_bytes().to_vec());
        if r.as_ref() != Some(&exp) {
            out.push(Finding { what: "Uri::base() is not the text up to and including the last '/' of the path".into(), inputs: vec![s.clone()], real: format!("{:?}", r.map(|x| lossy(&x))), expected: lossy(&exp) });
            return;
        }
    }
    let paths: Vec<Vec<u8>> = strings(b"a/.", 5).into_iter().filter(|s| uri::Path::new(s).is_ok()).collect();
    for a in &paths {
        for b in &paths {
            let aa = a.first() == Some(&b'/');
            let ab = b.first() == Some(&b'/');
            let na = norm(&segs(a), !aa);
            let nb = norm(&segs(b), !ab);
            let exp = aa == ab && nb.len() <= na.len() && na[..nb.len()] == nb[..];
            let (a2, b2) = (a.clone(), b.clone());
            let r = guarded(move || {
                let x = uri::Path::new(&a2).unwrap();
                let y = uri::Path::new(&b2).unwrap();
                x.suffix(y).map(|p| p.as_bytes().to_vec())
            });
            match r {
                None => {
                    out.push(Finding { what: "Path::suffix panics".into(), inputs: vec![a.clone(), b.clone()], real: "panic".into(), expected: "no panic".into() });
                    return;
                }
                Some(got) => {
                    if got.is_some() != exp {
                        out.push(Finding { what: "Path::suffix exists exactly when the prefix's normalized segments lead the value's (same kind)".into(), inputs: vec![a.clone(), b.clone()], real: format!("{:?}", got.map(|x| lossy(&x))), expected: if exp { "Some(..)".into() } else { "None".into() } });
                        return;
                    }
                    if let Some(sfx) = got {
                        // the remaining normalized segments (modulo a '.' shield)
                        let mut l = segs(&sfx);
                        if l.first() == Some(&&b"."[..]) && l.len() > 1 {
                            l.remove(0);
                        }
                        let rest: Vec<&[u8]> = na[nb.len()..].to_vec();
                        if l != rest && !(rest.iter().all(|x| x.is_empty())) {
                            out.push(Finding { what: "Path::suffix is not the remaining normalized segments".into(), inputs: vec![a.clone(), b.clone()], real: lossy(&sfx), expected: join_show(&rest) });
                            return;
                        }
                    }
                }
            }
        }
    }
}


fn parts_owned(s: &[u8]) -> (Option<Vec<u8>>, Option<Vec<u8>>, Vec<u8>, Option<Vec<u8>>, Option<Vec<u8>>) {
    let (a, b, c, d, e) = rfc_parts(s);
    (a.map(|x| x.to_vec()), b.map(|x| x.to_vec()), c.to_vec(), d.map(|x| x.to_vec()), e.map(|x| x.to_vec()))
}

/// the three documented disambiguations of C05
fn disamb(path: &[u8], has_scheme: bool, has_auth: bool) -> Vec<u8> {
    let first_seg_has_colon = path.split(|c| *c == b'/').next().map_or(false, |f| f.contains(&b':'));
    if has_auth && !path.is_empty() && path[0] != b'/' {
        [b"/", path].concat()
    } else if !has_auth && path.starts_with(b"//") {
        [b"/.", path].concat()
    } else if !has_scheme && !has_auth && first_seg_has_colon {
        [b"./", path].concat()
    } else {
        path.to_vec()
    }
}

fn showv(o: &Option<Vec<u8>>) -> String {
    match o {
        None => "None".into(),
        Some(x) => format!("Some({:?})", lossy(x)),
    }
}

/// C05 / C04: the five setters on every short reference
pub fn search_setters(out: &mut Vec<Finding>) {
    let refs: Vec<Vec<u8>> = strings(b"a:/?#", 5).into_iter().filter(|s| uri::UriRef::new(s).is_ok()).collect();
    let opt_vals: Vec<Option<&[u8]>> = vec![None, Some(b""), Some(b"b")];
    let paths: Vec<&[u8]> = vec![b"", b"/", b"b", b"/b", b"//b", b"b:c", b"./b", b"b/", b".//b", b"/.//b", b"./b:c"];
    for r in &refs {
        let (s0, a0, p0, q0, f0) = parts_owned(r);
        for which in 0..5 {
            let vals: Vec<Option<&[u8]>> = match which {
                0 => vec![None, Some(b"b")],
                2 => paths.iter().map(|p| Some(*p)).collect(),
                _ => opt_vals.clone(),
            };
            for v in vals {
                let r2 = r.clone();
                let v2 = v.map(|x| x.to_vec());
                let res = guarded(move || {
                    let mut u = uri::UriRefBuf::new(r2).unwrap();
                    match which {
                        0 => u.set_scheme(v2.as_ref().map(|x| uri::Scheme::new(x).unwrap())),
                        1 => u.set_authority(v2.as_ref().map(|x| uri::Authority::new(x).unwrap())),
                        2 => u.set_path(uri::Path::new(v2.as_ref().unwrap()).unwrap()),
                        3 => u.set_query(v2.as_ref().map(|x| uri::Query::new(x).unwrap())),
                        _ => u.set_fragment(v2.as_ref().map(|x| uri::Fragment::new(x).unwrap())),
                    }
                    u.into_bytes()
                });
                let name = ["set_scheme", "set_authority", "set_path", "set_query", "set_fragment"][which];
                let vv = v.map(|x| x.to_vec());
                let inputs = vec![r.clone(), vv.clone().unwrap_or_else(|| b"<None>".to_vec())];
                let n = match res {
                    None => {
                        out.push(Finding { what: format!("{} panics", name), inputs, real: "panic".into(), expected: "no panic".into() });
                        return;
                    }
                    Some(n) => n,
                };
                if uri::UriRef::new(&n).is_err() {
                    out.push(Finding { what: format!("{} leaves a text that does not re-parse as a URI reference", name), inputs, real: lossy(&n), expected: "a valid URI reference".into() });
                    return;
                }
                let (s1, a1, p1, q1, f1) = parts_owned(&n);
                let es = if which == 0 { vv.clone() } else { s0.clone() };
                let ea = if which == 1 { vv.clone() } else { a0.clone() };
                let eq_ = if which == 3 { vv.clone() } else { q0.clone() };
                let ef = if which == 4 { vv.clone() } else { f0.clone() };
                let tp = if which == 2 { vv.clone().unwrap() } else { p0.clone() };
                let ep = disamb(&tp, es.is_some(), ea.is_some());
                let path_ok = p1 == ep || (which != 2 && p1 == p0 && uri::UriRef::new(&n).is_ok());
                if s1 != es || a1 != ea || q1 != eq_ || f1 != ef || !path_ok {
                    out.push(Finding {
                        what: format!("{}: reading the components back does not give the requested value with the others unchanged (up to the documented disambiguations of the path)", name),
                        inputs,
                        real: format!("{:?}: s={} a={} p={:?} q={} f={}", lossy(&n), showv(&s1), showv(&a1), lossy(&p1), showv(&q1), showv(&f1)),
                        expected: format!("s={} a={} p={:?} q={} f={}", showv(&es), showv(&ea), lossy(&ep), showv(&eq_), showv(&ef)),
                    });
                    return;
                }
            }
        }
    }
}

fn unshield<'a>(mut l: Vec<&'a [u8]>) -> Vec<&'a [u8]> {
    if l.len() >= 2 && l[0] == b"." && (l[1].is_empty() || l[1].contains(&b':')) {
        l.remove(0);
    }
    l
}

/// C10 / C09 / C04: path edits in place inside a reference: frame, re-parse, list semantics of push, idempotence of normalize
pub fn search_pathops(out: &mut Vec<Finding>, only_normalize: bool) {
    let refs: Vec<Vec<u8>> = strings(b"a:/?.", 5).into_iter().filter(|s| uri::UriRef::new(s).is_ok()).collect();
    let segsv: Vec<&[u8]> = vec![b"b", b"", b"b:c", b".", b".."];
    let ops: Vec<&str> = if only_normalize { vec!["normalize"] } else { vec!["push", "pop", "clear", "symbolic_push", "normalize"] };
    for r in &refs {
        let (s0, a0, p0, q0, f0) = parts_owned(r);
        for op in &ops {
            let args: Vec<Option<&[u8]>> = if *op == "push" || *op == "symbolic_push" { segsv.iter().map(|x| Some(*x)).collect() } else { vec![None] };
            for arg in args {
                let (r2, op2, arg2) = (r.clone(), op.to_string(), arg.map(|x| x.to_vec()));
                let res = guarded(move || {
                    let mut u = uri::UriRefBuf::new(r2).unwrap();
                    {
                        let mut p = u.path_mut();
                        match op2.as_str() {
                            "push" => p.push(uri::Segment::new(arg2.as_ref().unwrap()).unwrap()),
                            "pop" => p.pop(),
                            "clear" => p.clear(),
                            "symbolic_push" => p.symbolic_push(uri::Segment::new(arg2.as_ref().unwrap()).unwrap()),
                            _ => p.normalize(),
                        }
                    }
                    let first = u.as_bytes().to_vec();
                    if op2 == "normalize" {
                        u.path_mut().normalize();
                    }
                    (first, u.into_bytes())
                });
                let inputs = vec![r.clone(), arg.map(|x| x.to_vec()).unwrap_or_else(|| b"<no argument>".to_vec())];
                let (n, twice) = match res {
                    None => {
                        out.push(Finding { what: format!("path_mut().{} panics", op), inputs, real: "panic".into(), expected: "no panic".into() });
                        return;
                    }
                    Some(x) => x,
                };
                if uri::UriRef::new(&n).is_err() {
                    out.push(Finding { what: format!("path_mut().{} leaves a text that does not re-parse as a URI reference", op), inputs, real: lossy(&n), expected: "a valid URI reference".into() });
                    return;
                }
                let (s1, a1, p1, q1, f1) = parts_owned(&n);
                if s1 != s0 || a1 != a0 || q1 != q0 || f1 != f0 {
                    out.push(Finding { what: format!("path_mut().{} changes a component other than the path", op), inputs, real: lossy(&n), expected: format!("s={} a={} q={} f={} as before", showv(&s0), showv(&a0), showv(&q0), showv(&f0)) });
                    return;
                }
                let abs0 = p0.first() == Some(&b'/') || (a0.is_some() && false);
                let abs1 = p1.first() == Some(&b'/');
                if *op == "normalize" {
                    if twice != n {
                        out.push(Finding { what: "in-place normalize is not idempotent".into(), inputs, real: format!("{:?} then {:?}", lossy(&n), lossy(&twice)), expected: "same text".into() });
                        return;
                    }
                    if abs1 != abs0 && !p0.is_empty() {
                        out.push(Finding { what: "in-place normalize changes the path from absolute to relative or back".into(), inputs, real: lossy(&n), expected: "same kind".into() });
                        return;
                    }
                    let l0 = segs(&p0);
                    let e = norm(&l0, !abs0);
                    let g = unshield(segs(&p1));
                    // after an authority "/" stands for both no segment and one empty segment
                    let lone_empty = e.len() == 1 && e[0].is_empty();
                    if g != e && !(lone_empty && g.is_empty()) {
                        out.push(Finding { what: "in-place normalize does not leave the RFC 3986 5.2.4 / Errata 4547 segment sequence".into(), inputs, real: format!("{:?} = {}", lossy(&p1), join_show(&g)), expected: join_show(&e) });
                        return;
                    }
                }
                if *op == "push" {
                    let mut e = unshield(segs(&p0));
                    e.push(arg.unwrap());
                    let g = unshield(segs(&p1));
                    // documented corner: an empty segment pushed onto an empty path needs the shield / is indistinguishable
                    let corner = segs(&p0).is_empty() && arg.unwrap().is_empty();
                    let mut raw = segs(&p0);
                    raw.push(arg.unwrap());
                    if g != e && segs(&p1) != raw && !corner {
                        out.push(Finding { what: "push does not append exactly the given segment to the segment sequence".into(), inputs, real: format!("{:?} = {}", lossy(&p1), join_show(&g)), expected: join_show(&e) });
                        return;
                    }
                }
                if *op == "clear" && !segs(&p1).is_empty() {
                    out.push(Finding { what: "clear leaves segments".into(), inputs, real: lossy(&p1), expected: "no segment".into() });
                    return;
                }
            }
        }
    }
}

/// C11 / C04: authority edits in place
pub fn search_authmut(out: &mut Vec<Finding>) {
    let auths: Vec<Vec<u8>> = strings(b"a:@1", 4).into_iter().filter(|s| uri::Authority::new(s).is_ok()).collect();
    let tails: Vec<&[u8]> = vec![b"", b"/p?q#f"];
    let ovals: Vec<Option<&[u8]>> = vec![None, Some(b""), Some(b"bb")];
    for au in &auths {
        for tail in &tails {
            let text = [b"s://", &au[..], tail].concat();
            let (u0, h0, p0) = { let (a, b, c) = rfc_auth(au); (a.map(|x| x.to_vec()), b.to_vec(), c.map(|x| x.to_vec())) };
            for which in 0..3 {
                let vals: Vec<Option<&[u8]>> = match which { 1 => vec![Some(b""), Some(b"bb"), Some(b"[::1]")], 2 => vec![None, Some(b""), Some(b"22")], _ => ovals.clone() };
                for v in vals {
                    for second in [false, true] {
                        let (t2, v2) = (text.clone(), v.map(|x| x.to_vec()));
                        let res = guarded(move || {
                            let mut u = uri::UriRefBuf::new(t2).unwrap();
                            {
                                let mut am = u.authority_mut().unwrap();
                                match which {
                                    0 => am.set_userinfo(v2.as_ref().map(|x| uri::UserInfo::new(x).unwrap())),
                                    1 => am.set_host(uri::Host::new(v2.as_ref().unwrap()).unwrap()),
                                    _ => am.set_port(v2.as_ref().map(|x| uri::Port::new(x).unwrap())),
                                }
                                if second {
                                    // a further edit through the SAME handle must behave as on a fresh one
                                    am.set_host(uri::Host::new(b"cc").unwrap());
                                }
                            }
                            u.into_bytes()
                        });
                        let name = ["set_userinfo", "set_host", "set_port"][which];
                        let vv = v.map(|x| x.to_vec());
                        let inputs = vec![text.clone(), vv.clone().unwrap_or_else(|| b"<None>".to_vec())];
                        let n = match res {
                            None => {
                                out.push(Finding { what: format!("authority_mut().{} panics", name), inputs, real: "panic".into(), expected: "no panic".into() });
                                return;
                            }
                            Some(n) => n,
                        };
                        let eu = if which == 0 { vv.clone() } else { u0.clone() };
                        let eh = if second { b"cc".to_vec() } else if which == 1 { vv.clone().unwrap() } else { h0.clone() };
                        let ep = if which == 2 { vv.clone() } else { p0.clone() };
                        let mut ea = vec![];
                        if let Some(x) = &eu { ea.extend_from_slice(x); ea.push(b'@'); }
                        ea.extend_from_slice(&eh);
                        if let Some(x) = &ep { ea.push(b':'); ea.extend_from_slice(x); }
                        let exp = [b"s://", &ea[..], tail].concat();
                        if n != exp {
                            out.push(Finding { what: format!("authority_mut().{}{} does not change exactly that sub-component", name, if second { " followed by set_host through the same handle" } else { "" }), inputs, real: lossy(&n), expected: lossy(&exp) });
                            return;
                        }
                    }
                }
            }
        }
    }
}


/// C15: relativisation round trip (probe: `all` lists every failing pair)
pub fn search_relative(out: &mut Vec<Finding>, all: bool) {
    let uris: Vec<Vec<u8>> = strings(b"s:/a.?#", 6).into_iter().filter(|s| uri::Uri::new(s).is_ok() && s.starts_with(b"s:")).collect();
    let mut n = 0usize;
    let mut bad = 0usize;
    for a in &uris {
        for b in &uris {
            n += 1;
            let (a2, b2) = (a.clone(), b.clone());
            let r = guarded(move || {
                let x = uri::Uri::new(&a2).unwrap();
                let y = uri::Uri::new(&b2).unwrap();
                let rel = x.relative_to(y);
                let valid = uri::UriRef::new(rel.as_bytes()).is_ok();
                let back = rel.resolved(y);
                (rel.as_bytes().to_vec(), valid, back.as_bytes().to_vec(), *back.as_uri() == *x)
            });
            let fail = match &r {
                None => true,
                Some((_, valid, _, same)) => !valid || !same,
            };
            if fail {
                bad += 1;
                if out.is_empty() || all {
                    let (real, exp) = match r {
                        None => ("panic".to_string(), "no panic".to_string()),
                        Some((rel, valid, back, _)) => (format!("relative = {:?} (valid: {}), resolved against the base = {:?}", lossy(&rel), valid, lossy(&back)), format!("a reference that resolves to something equal to {:?}", lossy(a))),
                    };
                    out.push(Finding { what: "relative_to does not round-trip through resolution".into(), inputs: vec![a.clone(), b.clone()], real, expected: exp });
                }
            }
        }
    }
    if all {
        eprintln!("pairs {} failing {}", n, bad);
    }
}


/// C06: the components RFC 3986 5.2.2 selects (scheme, authority, query, fragment exactly; the path where the table copies
/// it unchanged) and the agreement of the six entry points (resolved / resolve / into_resolved, both families).
/// The merged / dot-segment-free path itself is NOT compared here (two recorded deviations live there).
pub fn search_resolve(out: &mut Vec<Finding>) {
    let refs: Vec<Vec<u8>> = strings(b"a:/?#.", 4).into_iter().filter(|s| uri::UriRef::new(s).is_ok()).collect();
    let bases: Vec<&[u8]> = vec![b"s:", b"s:/b/c?q#f", b"s://h", b"s://h/b/c?q", b"s:b?q", b"s://h?q#f", b"t://g/x/y/"];
    for r in &refs {
        for b in &bases {
            let (rs, ra, rp, rq, rf) = parts_owned(r);
            let (bs, ba, bp, bq, _bf) = parts_owned(b);
            // RFC 3986 5.2.2
            let (es, ea, eq_, path_is): (Option<Vec<u8>>, Option<Vec<u8>>, Option<Vec<u8>>, Option<Vec<u8>>);
            if rs.is_some() {
                es = rs.clone(); ea = ra.clone(); eq_ = rq.clone(); path_is = None;
            } else if ra.is_some() {
                es = bs.clone(); ea = ra.clone(); eq_ = rq.clone(); path_is = None;
            } else if rp.is_empty() {
                es = bs.clone(); ea = ba.clone(); eq_ = if rq.is_some() { rq.clone() } else { bq.clone() }; path_is = Some(bp.clone());
            } else {
                es = bs.clone(); ea = ba.clone(); eq_ = rq.clone(); path_is = None;
            }
            let ef = rf.clone();
            let (r2, b2) = (r.clone(), b.to_vec());
            let res = guarded(move || {
                let base = uri::Uri::new(&b2).unwrap();
                let x = uri::UriRef::new(&r2).unwrap();
                let a1 = x.resolved(base).into_bytes();
                let mut y = x.to_owned();
                y.resolve(base);
                let a2 = y.into_bytes();
                let a3 = x.to_owned().into_resolved(base).into_bytes();
                let ib = base.as_iri();
                let xi = x.as_iri_ref();
                let a4 = xi.resolved(ib).into_bytes();
                let mut yi = xi.to_owned();
                yi.resolve(ib);
                let a5 = yi.into_bytes();
                let a6 = xi.to_owned().into_resolved(ib).into_bytes();
                vec![("UriRef::resolved", a1), ("UriRefBuf::resolve", a2), ("UriRefBuf::into_resolved", a3), ("IriRef::resolved", a4), ("IriRefBuf::resolve", a5), ("IriRefBuf::into_resolved", a6)]
            });
            let inputs = vec![r.clone(), b.to_vec()];
            let v = match res {
                None => {
                    out.push(Finding { what: "resolution panics".into(), inputs, real: "panic".into(), expected: "no panic".into() });
                    return;
                }
                Some(v) => v,
            };
            let first = v[0].1.clone();
            for (what, t) in &v {
                if *t != first {
                    out.push(Finding { what: format!("{} disagrees with UriRef::resolved on the same reference and base", what), inputs, real: lossy(t), expected: lossy(&first) });
                    return;
                }
            }
            if uri::Uri::new(&first).is_err() {
                out.push(Finding { what: "the resolved text is not a valid URI".into(), inputs, real: lossy(&first), expected: "a valid URI".into() });
                return;
            }
            let (ts, ta, tp, tq, tf) = parts_owned(&first);
            let path_ok = match &path_is { Some(p) => tp == *p, None => true };
            if ts != es || ta != ea || tq != eq_ || tf != ef || !path_ok {
                out.push(Finding {
                    what: "resolution does not select the components of RFC 3986 5.2.2".into(),
                    inputs,
                    real: format!("{:?}: s={} a={} p={:?} q={} f={}", lossy(&first), showv(&ts), showv(&ta), lossy(&tp), showv(&tq), showv(&tf)),
                    expected: format!("s={} a={} {} q={} f={}", showv(&es), showv(&ea), match &path_is { Some(p) => format!("p={:?}", lossy(p)), None => "p=(merged / dot-segment-free path, not compared)".to_string() }, showv(&eq_), showv(&ef)),
                });
                return;
            }
        }
    }
}

/// C01 (routes around the validating automaton): owned constructors and from_vec agree with the borrowed `new`,
/// keep the text, and hand the input back untouched on failure
pub fn search_routes(out: &mut Vec<Finding>) {
    let alpha: Vec<u8> = vec![b'a', b':', b'/', b'%', 0xC3, 0xA9, 0xFF];
    for s in strings(&alpha, 4) {
        let as_str = std::str::from_utf8(&s).ok().map(|x| x.to_string());
        let exp_iri = as_str.as_ref().map_or(false, |t| iri::Iri::new(t.as_str()).is_ok());
        let exp_iriref = as_str.as_ref().map_or(false, |t| iri::IriRef::new(t.as_str()).is_ok());
        let exp_uri = uri::Uri::new(&s).is_ok();
        let exp_uriref = uri::UriRef::new(&s).is_ok();
        let s2 = s.clone();
        let r = guarded(move || {
            let f = |r: Result<Vec<u8>, Vec<u8>>| r;
            vec![
                ("IriBuf::from_vec", f(iri::IriBuf::from_vec(s2.clone()).map(|x| x.into_bytes()).map_err(|e| e.0))),
                ("IriRefBuf::from_vec", f(iri::IriRefBuf::from_vec(s2.clone()).map(|x| x.into_bytes()).map_err(|e| e.0))),
                ("UriBuf::new", f(uri::UriBuf::new(s2.clone()).map(|x| x.into_bytes()).map_err(|e| e.0))),
                ("UriRefBuf::new", f(uri::UriRefBuf::new(s2.clone()).map(|x| x.into_bytes()).map_err(|e| e.0))),
            ]
        });
        let v = match r {
            None => {
                out.push(Finding { what: "an owned constructor panics".into(), inputs: vec![s.clone()], real: "panic".into(), expected: "no panic".into() });
                return;
            }
            Some(v) => v,
        };
        for ((what, got), exp) in v.into_iter().zip([exp_iri, exp_iriref, exp_uri, exp_uriref]) {
            let ok = match &got { Ok(t) => exp && *t == s, Err(t) => !exp && *t == s };
            if !ok {
                out.push(Finding { what: format!("{}: wrong outcome, or the text / the returned input is not the input", what), inputs: vec![s.clone()], real: format!("{:?}", got.map(|x| hexs(&x)).map_err(|x| hexs(&x))), expected: format!("{} carrying {}", if exp { "Ok" } else { "Err" }, hexs(&s)) });
                return;
            }
        }
    }
}


/// C19: the percent-encoded views of components (text, decoded octets, length); inputs whose decoded octets are not
/// UTF-8 are skipped (recorded finding: those panic)
pub fn search_pct(out: &mut Vec<Finding>) {
    for s in strings(b"a%41?/", 4) {
        let dec = match pct(&s) {
            Some(d) => d,
            None => continue,
        };
        let s2 = s.clone();
        let r = guarded(move || {
            let mut v: Vec<(&'static str, String, String, usize)> = vec![];
            let t = std::str::from_utf8(&s2).unwrap().to_string();
            let t = t.as_str();
            if let Ok(x) = uri::Query::new(&s2) { let p = x.as_pct_str(); v.push(("uri::Query", p.as_str().to_string(), p.decode(), p.len())); }
            if let Ok(x) = uri::Fragment::new(&s2) { let p = x.as_pct_str(); v.push(("uri::Fragment", p.as_str().to_string(), p.decode(), p.len())); }
            if let Ok(x) = uri::Segment::new(&s2) { let p = x.as_pct_str(); v.push(("uri::Segment", p.as_str().to_string(), p.decode(), p.len())); }
            if let Ok(x) = uri::Host::new(&s2) { let p = x.as_pct_str(); v.push(("uri::Host", p.as_str().to_string(), p.decode(), p.len())); }
            if let Ok(x) = uri::UserInfo::new(&s2) { let p = x.as_pct_str(); v.push(("uri::UserInfo", p.as_str().to_string(), p.decode(), p.len())); }
            if let Ok(x) = iri::Query::new(&t) { let p = x.as_pct_str(); v.push(("iri::Query", p.as_str().to_string(), p.decode(), p.len())); }
            if let Ok(x) = iri::Fragment::new(&t) { let p = x.as_pct_str(); v.push(("iri::Fragment", p.as_str().to_string(), p.decode(), p.len())); }
            if let Ok(x) = iri::Segment::new(&t) { let p = x.as_pct_str(); v.push(("iri::Segment", p.as_str().to_string(), p.decode(), p.len())); }
            if let Ok(x) = iri::Host::new(&t) { let p = x.as_pct_str(); v.push(("iri::Host", p.as_str().to_string(), p.decode(), p.len())); }
            if let Ok(x) = iri::UserInfo::new(&t) { let p = x.as_pct_str(); v.push(("iri::UserInfo", p.as_str().to_string(), p.decode(), p.len())); }
            // the owned types: into_pct_string keeps the text
            if let Ok(x) = uri::Query::new(&s2) { let p = x.to_owned().into_pct_string(); v.push(("uri::QueryBuf::into_pct_string", p.as_str().to_string(), p.decode(), p.len())); }
            if let Ok(x) = uri::Fragment::new(&s2) { let p = x.to_owned().into_pct_string(); v.push(("uri::FragmentBuf::into_pct_string", p.as_str().to_string(), p.decode(), p.len())); }
            if let Ok(x) = uri::Host::new(&s2) { let p = x.to_owned().into_pct_string(); v.push(("uri::HostBuf::into_pct_string", p.as_str().to_string(), p.decode(), p.len())); }
            if let Ok(x) = uri::UserInfo::new(&s2) { let p = x.to_owned().into_pct_string(); v.push(("uri::UserInfoBuf::into_pct_string", p.as_str().to_string(), p.decode(), p.len())); }
            if let Ok(x) = iri::Query::new(&t) { let p = x.to_owned().into_pct_string(); v.push(("iri::QueryBuf::into_pct_string", p.as_str().to_string(), p.decode(), p.len())); }
            if let Ok(x) = iri::Fragment::new(&t) { let p = x.to_owned().into_pct_string(); v.push(("iri::FragmentBuf::into_pct_string", p.as_str().to_string(), p.decode(), p.len())); }
            if let Ok(x) = iri::Host::new(&t) { let p = x.to_owned().into_pct_string(); v.push(("iri::HostBuf::into_pct_string", p.as_str().to_string(), p.decode(), p.len())); }
            if let Ok(x) = iri::UserInfo::new(&t) { let p = x.to_owned().into_pct_string(); v.push(("iri::UserInfoBuf::into_pct_string", p.as_str().to_string(), p.decode(), p.len())); }
            v
        });
        match r {
            None => {
                out.push(Finding { what: "a percent-encoded view panics on a component whose decoded octets are UTF-8".into(), inputs: vec![s.clone()], real: "panic".into(), expected: "no panic".into() });
                return;
            }
            Some(v) => {
                for (what, text, d, len) in v {
                    if text.as_bytes() != &s[..] || d != dec || len != dec.chars().count() {
                        out.push(Finding { what: format!("{}: the percent-encoded view is not the component's text / its percent-decoding", what), inputs: vec![s.clone()], real: format!("text {:?} decoded {:?} len {}", text, d, len), expected: format!("text {:?} decoded {:?} len {}", lossy(&s), dec, dec.chars().count()) });
                        return;
                    }
                }
            }
        }
    }
}


fn is_mt(c: u8) -> bool {
    c.is_ascii_alphanumeric() || matches!(c, b'/' | b'!' | b'#' | b'$' | b'&' | b'-' | b'+' | b'^' | b'_' | b'.')
}
/// shape of a data URL: 'data:' media-type [';base64'] ',' data  ->  (end of the media type, base64?, start of the data)
fn data_shape(s: &[u8]) -> Option<(usize, bool, usize)> {
    if s.len() < 5 || &s[..5] != b"data:" {
        return None;
    }
    let mut i = 5;
    while i < s.len() {
        let c = s[i];
        if c == b',' {
            return Some((i, false, i + 1));
        }
        if c == b';' {
            return if s.len() >= i + 8 && &s[i + 1..i + 8] == b"base64," { Some((i, true, i + 8)) } else { None };
        }
        if !is_mt(c) {
            return None;
        }
        i += 1;
    }
    None
}
/// C18: the scanner accepts exactly the data-URL shape; the re-scanning borrowed accessors and the offset-based parts agree
pub fn search_dataurl(out: &mut Vec<Finding>) {
    let mut texts: Vec<Vec<u8>> = vec![];
    for t in strings(b"a;,/b", 6) {
        texts.push([&b"data:"[..], &t[..]].concat());
    }
    for t in strings(b"a;,", 3) {
        texts.push([&b"data:"[..], &t[..], &b";base64,"[..]].concat());
        texts.push([&b"data:,"[..], &t[..], &b";base64,"[..], &t[..]].concat());
        texts.push([&b"data:a;base64,"[..], &t[..]].concat());
        texts.push([&b"data:;base64,"[..], &t[..]].concat());
    }
    for s in texts {
        let sh = data_shape(&s);
        let s2 = s.clone();
        let r = guarded(move || {
            let st = std::str::from_utf8(&s2).unwrap();
            let parts = uri::data::DataUrlPartsRef::parse(st);
            match parts {
                None => None,
                Some(p) => {
                    let d = unsafe { uri::data::DataUrl::new_unchecked(s2.as_slice()) };
                    Some((
                        p.media_type.map(|m| m.as_bytes().to_vec()), p.base_64, p.data.as_bytes().to_vec(),
                        d.media_type().map(|m| m.as_bytes().to_vec()), d.is_base_64_encoded(), d.encoded_data().as_bytes().to_vec(),
                    ))
                }
            }
        });
        let bad: Option<(String, String, String)> = match r {
            None => Some(("a data-URL view panics".into(), "panic".into(), "no panic".into())),
            Some(got) => match (got, sh) {
                (None, None) => None,
                (Some(_), None) => Some(("the scanner accepts a text that is not of the data-URL shape".into(), "accepted".into(), "rejected".into())),
                (None, Some(_)) => Some(("the scanner rejects a text of the data-URL shape".into(), "rejected".into(), "accepted".into())),
                (Some((pm, pb, pd, dm, db, dd)), Some((mte, b64, ds))) => {
                    let em = if mte > 5 { Some(s[5..mte].to_vec()) } else { None };
                    let ed = s[ds..].to_vec();
                    if pm != em || pb != b64 || pd != ed {
                        Some(("the parts (media type, base64 flag, data) are not those of the shape".into(), format!("{:?} {} {:?}", pm.map(|x| lossy(&x)), pb, lossy(&pd)), format!("{:?} {} {:?}", em.map(|x| lossy(&x)), b64, lossy(&ed))))
                    } else if dm != em || db != b64 || dd != ed {
                        Some(("the borrowed accessors (re-scan) disagree with the parts".into(), format!("{:?} {} {:?}", dm.map(|x| lossy(&x)), db, lossy(&dd)), format!("{:?} {} {:?}", em.map(|x| lossy(&x)), b64, lossy(&ed))))
                    } else {
                        None
                    }
                }
            },
        };
        if let Some((what, real, expected)) = bad {
            out.push(Finding { what, inputs: vec![s.clone()], real, expected });
            return;
        }
    }
}

pub fn search(prop: &str) -> Vec<Finding> {
    let mut out = vec![];
    match prop {
        "C02" => search_parts(&mut out),
        "C03" => search_auth(&mut out),
        "C20" => {
            search_parts(&mut out);
            if out.is_empty() {
                search_auth(&mut out)
            }
            if out.is_empty() {
                search_segments(&mut out)
            }
        }
        "C12" => search_segments(&mut out),
        "C09" => {
            search_segments(&mut out);
            if out.is_empty() {
                search_pathops(&mut out, true)
            }
        }
        "C05" => search_setters(&mut out),
        "C10" => search_pathops(&mut out, false),
        "C11" => search_authmut(&mut out),
        "C06" => search_resolve(&mut out),
        "C19" => search_pct(&mut out),
        "C18" => search_dataurl(&mut out),
        "C01" => search_routes(&mut out),
        "C15" => search_relative(&mut out, false),
        "C15all" => search_relative(&mut out, true),
        "C04" => {
            search_setters(&mut out);
            if out.is_empty() {
                search_pathops(&mut out, false)
            }
            if out.is_empty() {
                search_authmut(&mut out)
            }
        }
        "C07" | "C08" => search_cmp(&mut out),
        "C13" => search_conv(&mut out),
        "C16" => search_suffix_base(&mut out),
        _ => {}
    }
    out
}

pub fn print(prop: &str) -> i32 {
    let f = search(prop);
    for x in &f {
        let ins: Vec<String> = x.inputs.iter().map(|i| format!("\"{}\"", hexs(i))).collect();
        let txt: Vec<String> = x.inputs.iter().map(|i| format!("{:?}", lossy(i))).collect();
        println!(
            "{{\"prop\":\"{}\",\"what\":{:?},\"inputs_hex\":[{}],\"inputs_text\":[{}],\"real\":{:?},\"expected\":{:?}}}",
            prop, x.what, ins.join(","), txt.join(","), x.real, x.expected
        );
    }
    if f.is_empty() {
        println!("{{\"prop\":\"{}\",\"none\":true}}", prop);
        0
    } else {
        1
    }
}
