//! Replay driver: runs the REAL crate (current tree) on a concrete input. Never the deciding
//! step of a check: it only confirms a counterexample the verifier side produced.
use iref_core::{iri, uri};
use std::panic;
mod oracle;

fn hex(s: &str) -> Vec<u8> {
    (0..s.len() / 2).map(|i| u8::from_str_radix(&s[2 * i..2 * i + 2], 16).unwrap()).collect()
}

fn new_uri(ty: &str, b: &[u8]) -> bool {
    match ty {
        "Uri" => uri::Uri::new(b).is_ok(),
        "UriRef" => uri::UriRef::new(b).is_ok(),
        "Scheme" => uri::Scheme::new(b).is_ok(),
        "Authority" => uri::Authority::new(b).is_ok(),
        "UserInfo" => uri::UserInfo::new(b).is_ok(),
        "Host" => uri::Host::new(b).is_ok(),
        "Port" => uri::Port::new(b).is_ok(),
        "Path" => uri::Path::new(b).is_ok(),
        "Segment" => uri::Segment::new(b).is_ok(),
        "Query" => uri::Query::new(b).is_ok(),
        "Fragment" => uri::Fragment::new(b).is_ok(),
        _ => panic!("unknown type"),
    }
}

fn new_iri(ty: &str, s: &str) -> bool {
    match ty {
        "Iri" => iri::Iri::new(s).is_ok(),
        "IriRef" => iri::IriRef::new(s).is_ok(),
        "Authority" => iri::Authority::new(s).is_ok(),
        "UserInfo" => iri::UserInfo::new(s).is_ok(),
        "Host" => iri::Host::new(s).is_ok(),
        "Path" => iri::Path::new(s).is_ok(),
        "Segment" => iri::Segment::new(s).is_ok(),
        "Query" => iri::Query::new(s).is_ok(),
        "Fragment" => iri::Fragment::new(s).is_ok(),
        _ => panic!("unknown type"),
    }
}

fn main() {
    panic::set_hook(Box::new(|_| {}));
    let a: Vec<String> = std::env::args().collect();
    match a[1].as_str() {
        // search <Cxx>: bounded refutation search (oracle.rs); prints one JSON line per discrepancy found
        "search" => {
            std::process::exit(oracle::print(&a[2]));
        }
        // new <uri|iri> <Type> <hex of the UTF-8 text>
        "new" => {
            let b = hex(&a[4]);
            let r = if a[2] == "uri" { new_uri(&a[3], &b) } else { new_iri(&a[3], std::str::from_utf8(&b).unwrap()) };
            println!("{}", if r { "accept" } else { "reject" });
        }
        // authority <hex>: user info / host / port by parts() and by the individual accessors
        "authority" => {
            let b = hex(&a[2]);
            let au = uri::Authority::new(&b).expect("valid authority");
            let p = au.parts();
            println!(
                "parts ui={:?} host={:?} port={:?} | acc ui={:?} host={:?} port={:?}",
                p.user_info.map(|x| x.as_str()), p.host.as_str(), p.port.map(|x| x.as_str()),
                au.user_info().map(|x| x.as_str()), au.host().as_str(), au.port().map(|x| x.as_str())
            );
        }
        // uriref <hex>: five components by parts() and by accessors
        "uriref" => {
            let b = hex(&a[2]);
            let u = uri::UriRef::new(&b).expect("valid URI reference");
            let p = u.parts();
            println!(
                "parts s={:?} a={:?} p={:?} q={:?} f={:?} | acc s={:?} a={:?} p={:?} q={:?} f={:?}",
                p.scheme.map(|x| x.as_str()), p.authority.map(|x| x.as_str()), p.path.as_str(), p.query.map(|x| x.as_str()), p.fragment.map(|x| x.as_str()),
                u.scheme().map(|x| x.as_str()), u.authority().map(|x| x.as_str()), u.path().as_str(), u.query().map(|x| x.as_str()), u.fragment().map(|x| x.as_str())
            );
        }
        // pathop <hex path> <op> [<hex segment>] : edit a stand-alone URI PathBuf, print the new text
        "pathop" => {
            let mut p = uri::PathBuf::new(hex(&a[2])).expect("valid path");
            match a[3].as_str() {
                "push" => p.push(uri::Segment::new(&hex(&a[4])).expect("valid segment")),
                "pop" => p.pop(),
                "clear" => p.clear(),
                "symbolic_push" => p.symbolic_push(uri::Segment::new(&hex(&a[4])).expect("valid segment")),
                "normalize" => p.normalize(),
                "normalized" => { p = p.normalized(); }
                _ => panic!("unknown path op"),
            }
            println!("{}", p.as_str());
        }
        // refpathop <hex uri-ref> <op> [<hex segment>] : edit the path of a UriRefBuf in place
        "refpathop" => {
            let mut u = uri::UriRefBuf::new(hex(&a[2])).expect("valid URI reference");
            {
                let mut p = u.path_mut();
                match a[3].as_str() {
                    "push" => p.push(uri::Segment::new(&hex(&a[4])).expect("valid segment")),
                    "pop" => p.pop(),
                    "clear" => p.clear(),
                    "symbolic_push" => p.symbolic_push(uri::Segment::new(&hex(&a[4])).expect("valid segment")),
                    "normalize" => p.normalize(),
                    _ => panic!("unknown path op"),
                }
            }
            println!("{} reparse={}", u.as_str(), uri::UriRef::new(u.as_bytes()).is_ok());
        }
        // resolve <hex ref> <hex base>
        "resolve" => {
            let r = uri::UriRefBuf::new(hex(&a[2])).expect("valid URI reference");
            let bb = hex(&a[3]);
            let b = uri::Uri::new(&bb).expect("valid base URI");
            println!("{}", r.resolved(b).as_str());
        }
        // pcteq <Type> <hex>: build a component and compare / hash / iterate it (C07, C19): prints ok or panic
        "pcteq" => {
            let b = hex(&a[3]);
            let ty = a[2].clone();
            let r = panic::catch_unwind(move || {
                use std::hash::{Hash, Hasher};
                let mut h = std::collections::hash_map::DefaultHasher::new();
                match ty.as_str() {
                    "Segment" => { let x = uri::Segment::new(&b).expect("valid"); let _ = x == x; x.hash(&mut h); let _ = x.as_pct_str().chars().count(); }
                    "Query" => { let x = uri::Query::new(&b).expect("valid"); let _ = x == x; x.hash(&mut h); }
                    "Fragment" => { let x = uri::Fragment::new(&b).expect("valid"); let _ = x == x; x.hash(&mut h); }
                    "UserInfo" => { let x = uri::UserInfo::new(&b).expect("valid"); let _ = x == x; x.hash(&mut h); }
                    "Host" => { let x = uri::Host::new(&b).expect("valid"); let _ = x == x; x.hash(&mut h); }
                    "Uri" => { let x = uri::Uri::new(&b).expect("valid"); let _ = x == x; x.hash(&mut h); }
                    _ => panic!("unknown type"),
                }
            });
            println!("{}", if r.is_ok() { "ok" } else { "panic" });
        }
        _ => panic!("unknown op"),
    }
}
