"""Per-property configuration: which units decide it, the level claimed, what is not covered."""
PROPS = {
    "C01": {
        "level": "proof",
        "units": [{"kind": "dfa", "name": "20 generated validators == RFC 3986/3987 productions"}],
        "assumptions": ["construction routes other than the validating automaton (generated new/TryFrom/FromStr/serde wrappers, from_vec) are dependency output or thin wrappers: listed, not proved"],
        "not_covered": ["TryFrom/FromStr/serde routes (C14)", "IriBuf::from_vec / IriRefBuf::from_vec UTF-8 step (String::from_utf8 is std)", "text preservation by the generated `new` (transmute)"],
    },
    "C02": {
        "level": "proof",
        "units": [{"kind": "verus", "name": "decomposition scanners + accessors vs RFC 3986 App. B spec", "specs": ["00_base", "01_chars", "02_authority", "03_types"]},
                  {"kind": "kani", "name": "facade wrappers (uri/, iri/) agree with the proved accessors - BOUNDED", "harnesses": [
            {"name": "facade_uriref_parts_5", "bound": "all ASCII texts up to 5 bytes"},
            {"name": "facade_iriref_parts_5", "bound": "all ASCII texts up to 5 bytes"},
            {"name": "facade_uri_parts_5", "bound": "all ASCII texts up to 5 bytes with a scheme"}]}],
        "assumptions": ["type invariant of references taken as precondition: ref_shape (text does not start with ':')",
                        "uri/ and iri/ impl blocks (field projections, generated new_unchecked/as_bytes) satisfy the trait contracts"],
        "not_covered": ["'each component is a valid value of its type' relies on grammar lemma G1 (not yet machine-checked)",
                        "Uri::parts / UriRef::parts wrappers in uri/, iri/ (external to Verus)"],
    },
    "C03": {
        "level": "proof",
        "units": [{"kind": "verus", "name": "authority scanners + AuthorityImpl accessors vs RFC 3986 3.2 spec", "specs": ["00_base", "01_chars", "02_authority", "03_types"]},
                  {"kind": "kani", "name": "Authority::parts wrappers of both families agree - BOUNDED", "harnesses": [
                      {"name": "facade_authority_parts_5", "bound": "all ASCII texts up to 5 bytes without '/', '?', '#'"}]}],
        "assumptions": ["type invariant of authorities taken as precondition: auth_shape ('[' only opens the host, only ':port' follows ']', one '@' at most)"],
        "not_covered": ["validity of each part as a value of its own type (grammar lemma G3)"],
    },
    "C05": {
        "level": "proof",
        "units": [{"kind": "verus", "name": "the five setters of RiRefBufImpl vs recomposition of the five components (one replaced, documented disambiguations spelled out)"}],
        "assumptions": ["type invariant of references as precondition: ref_shape; arguments satisfy the structural consequences of their grammars (scheme_shape, authority_shape, path_shape, query_shape)"],
        "not_covered": ["RiBufImpl::set_scheme (URI/IRI with mandatory scheme) and from_scheme: not under contract",
                        "uri/ iri/ one-line wrappers", "validity of the result as a member of the RFC language (needs grammar lemma G1; only the structural decomposition is proved)"],
    },
    "C06": {
        "level": "proof",
        "units": [{"kind": "verus", "name": "RiRefBufImpl::resolve: RFC 3986 5.2.2 component selection + exact path per branch, over the contracts of the setters (C05), PathMutImpl (C09/C10), accessors (C02) and parent_or_empty (C12)",
                   "include_props": ["C02", "C05", "C09", "C10", "C12"], "per_function": ["common::path_mut"], "rlimit": 1000}],
        "assumptions": ["type invariants as preconditions: ref_shape of the reference and of the base, the base has a scheme; 8*|R| + 4*|B| + 64 < usize::MAX (no overflow of the intermediate buffers)",
                        "the proof of resolve is split by branch into five Verus queries (mechanical case split of the twin: in variant k the other four marked branches start with assume(false) and are verified in their own variant; unmarked code is verified in every variant)",
                        "the generic symbolic_append keeps its contract as an assumption; it is proved (twin) for the iterator the library passes (SegmentsImpl)",
                        "uri/ iri/ entry points (resolve, resolved, into_resolved) are one-line delegations to RiRefBufImpl::resolve (outside Verus); `base unchanged` holds by the shared borrow `&Self::Ri`"],
        "not_covered": ["the link between the exact per-branch path text (proved) and RFC 3986 5.2.3 merge + 5.2.4 remove_dot_segments of the whole path is NOT proved as a lemma; deviations found by probing are recorded findings (trailing '/' after a final dot segment is lost by in-place normalisation; empty segments appended to an empty path are dropped)",
                        "agreement of the URI and IRI families (same generic code instantiated twice; the facade wrappers are outside Verus)",
                        "into_resolved (unchecked reinterpretation of the resolved buffer as RiBuf) - justified by `result has a scheme` (proved) but the cast itself is not under contract"],
    },
    "C19": {
        "level": "other",
        "units": [{"kind": "verus", "name": "SegmentImpl::as_pct_str against the dependency's documented precondition (decoded octets are UTF-8)",
                   "specs": ["00_base", "01_chars", "02_authority", "03_types", "04_path"]}],
        "assumptions": ["PctStr::new_unchecked requires `pct_decodes_to_utf8(text)` (pct-str 2.0 documentation: 'must be a valid percent-encoded string'; its Eq/Hash/chars unwrap the UTF-8 decoder) - assumed contract of the dependency"],
        "not_covered": ["Host / UserInfo / Query / Fragment ::as_pct_str and ::into_pct_string (uri/, iri/ facade files: same one-line unchecked cast, outside Verus)",
                        "behaviour of pct-str itself (decode, chars, len, comparison with str)"],
        "explanation": "Negative decision. The contract of SegmentImpl::as_pct_str has the postcondition `pct_text(result) == text(self)` (proved) and must establish the precondition of PctStr::new_unchecked at its call site from the only thing a valid segment guarantees (seg_shape: RFC grammar, '%' HEXDIG HEXDIG). That precondition obligation cannot be discharged - it is the gap the property describes - and the witness %FF replays on the real code as a panic. It is listed in known_findings.json; the check exits 0 with a KNOWN-FINDING line and reports any OTHER failing obligation of as_pct_str as a violation.",
    },
    "C09": {
        "level": "proof",
        "units": [{"kind": "verus", "name": "NormalizedSegmentsImpl::new vs the RFC 3986 5.2.4 / Errata 4547 fold; PathMutImpl::normalize vs the rendering of that sequence (with shield) + frame",
                   "specs": ["00_base", "01_chars", "02_authority", "03_types", "04_path", "05_compose", "06_refcompose", "07_pathmut", "08_segs", "09_norm"], "per_function": ["common::path_mut"], "rlimit": 300}],
        "assumptions": ["smallvec behaves like a Vec (assumed contracts of SmallVec::{new,push,pop,len,deref,extend_from_slice,into_iter} and IntoIter::{next,next_back})",
                        "path_shape / handle invariant as preconditions"],
        "not_covered": ["PathImpl::normalized() (the copying variant, built from symbolic_push) is not under contract; on the unchanged tree it drops leading empty segments ('//a' -> '/a') - recorded finding",
                        "idempotence and 'segments of the rendered text == normalized sequence' are not yet proved as lemmas (the rendering itself is exact)",
                        "ExactSizeIterator::len / size_hint of NormalizedSegments"],
    },
    "C10": {
        "level": "proof",
        "units": [{"kind": "verus", "name": "PathMutImpl push/pop/clear/symbolic_push: exact result text + frame; list-semantics and context-safety lemmas on the text level",
                   "specs": ["00_base", "01_chars", "02_authority", "03_types", "04_path", "05_compose", "06_refcompose", "07_pathmut", "08_segs"],
                   "per_function": ["common::path_mut"], "rlimit": 300}],
        "assumptions": ["handle invariant as precondition (window inside the buffer, window text is a path); segment arguments have no '/', '?', '#'",
                        "RiRefBufImpl::path_mut / PathBufImpl::as_path_mut construct the handle on the path of the buffer (constructor contract assumed: one-line wrappers)"],
        "not_covered": ["symbolic_append (generic IntoIterator loop) and normalize (C09) are not under contract",
                        "composition over a sequence of edits relies on edited() re-establishing inv() (proved) - the enclosing reference's decomposition after an edit is a spec-level theorem (lemma_path_edit_ref) not re-proved per call"],
    },
    "C11": {
        "level": "proof",
        "units": [{"kind": "verus", "name": "AuthorityMutImpl: window invariant + splice postconditions of set_userinfo/set_host/set_port", "specs": ["00_base", "01_chars", "02_authority", "03_types", "05_compose"]}],
        "assumptions": ["arguments satisfy the structural consequences of their grammars (ui_shape, host_shape, port_shape) - taken as preconditions",
                        "the handle is created on a well-shaped authority (precondition of AuthorityMutImpl::new; its caller RiRefBufImpl::authority_mut is not yet under contract)"],
        "not_covered": ["uri/ iri/ AuthorityMut wrappers (one-line delegations)"],
    },
    "C12": {
        "level": "proof",
        "units": [{"kind": "verus", "name": "segment_at / next_segment_from / previous_segment_from / SegmentsImpl::{next,next_back} / first / last / directory / parent vs the positional '/'-split", "specs": ["00_base", "01_chars", "02_authority", "03_types", "04_path"]}],
        "assumptions": ["type invariant of paths as precondition: path_shape (no '?' and no '#')",
                        "trait-impl methods (Iterator::next, DoubleEndedIterator::next_back) and default methods that call PathImpl-bounded generics are proved on mechanically generated free-function twins with the same body; the method itself carries the same contract as an assumption"],
        "not_covered": ["file_name, segment_count and NormalizedSegments::len are iterator-adapter one-liners in the facade (outside Verus)"],
    },
    "C16": {
        "level": "proof",
        "units": [{"kind": "verus", "name": "PathImpl::directory and RiRefImpl::base vs 'text up to and including the last / of the path'", "specs": ["00_base", "01_chars", "02_authority", "03_types", "04_path"]}],
        "assumptions": [],
        "not_covered": ["suffix() (PctStr comparison + NormalizedSegments + push): not under contract", "validity of base() as a value of the same kind (grammar lemma)"],
    },
    "C20": {
        "level": "proof",
        "units": [{"kind": "verus", "name": "ranges returned by the decomposers are ordered, disjoint, inside the input", "specs": ["00_base", "01_chars", "02_authority", "03_types", "04_path"]}],
        "assumptions": [],
        "not_covered": ["allocation-freedom is not expressible in Verus or Kani (no effect system) - NOT decided"],
    },
}

MANIFEST_TEXT = {
    "C06": {
        "technique": "Verus contract on the real RiRefBufImpl::resolve (proved on its mechanically generated twin, five queries by branch), composed modularly from the contracts of the setters, the path handle and the accessors",
        "level_text": "Deductive proof for all (reference, base) pairs of any length: resolve never panics or overflows, the result is a well-shaped reference WITH a scheme, and its scheme, authority, query and fragment are exactly the RFC 3986 5.2.2 selection (T.scheme/T.authority/T.query/T.fragment table, including 'query of the base only when the reference has an empty path and no query'); the path is pinned exactly per branch: base path when the reference's path is empty, the in-place normalisation of the reference's own path in the scheme / authority / absolute-path branches, and in the merge branch the composition base-directory (or '/' for an empty base path after an authority) -> normalise -> symbolic append of the reference's segments -> set_path disambiguation, each step being a function under contract.",
        "level_note": "NOT proved: that the per-branch path text equals RFC 5.2.3 merge + 5.2.4 dot removal of the whole path (no lemma yet; two deviations are recorded findings with witnesses). Proof of resolve split into 5 queries by branch (case split listed as assumption). Facade entry points and URI/IRI agreement outside Verus.",
    },
    "C19": {
        "technique": "Verus contract on the real SegmentImpl::as_pct_str against an assumed contract of the dependency (PctStr::new_unchecked requires UTF-8 decodability); the failing call-site precondition is the decision",
        "level_text": "Negative decision with witness: the view is faithful (postcondition `text of the view == text of the segment` proved) but NOT total - the precondition of the unchecked cast cannot be established from segment validity; the segment %FF is accepted by Segment::new and makes ==, hash and chars() of the view panic on the real code (replayed on every run). Recorded as known finding; any other failing obligation is a violation.",
        "level_note": "Only SegmentImpl (common/path.rs) is under contract; Host/UserInfo/Query/Fragment casts in uri/ iri/ are the same one-liners but outside Verus. pct-str itself is not verified.",
    },
    "C09": {
        "technique": "Verus loop invariant on the real stack-based normaliser (view of the stack == left fold of the RFC step over the consumed segments) and exact-text contract on in-place normalize",
        "level_text": "Deductive proof for all paths of any length (no 16-segment / 512-byte bound): NormalizedSegmentsImpl::new returns exactly norm_fold(segs(path)), the left fold that drops '.', lets '..' remove the previous segment, keeps it when the path is relative and nothing (or only '..') is left, and drops it at the root of an absolute path; PathMutImpl::normalize rewrites the path window to first-offset + optional './' shield + the '/'-join of that sequence, leaves prefix and suffix (scheme, authority, query, fragment) byte-identical, cannot overflow (normalisation never lengthens: proved), and re-establishes the handle invariant.",
        "level_note": "Assumed: smallvec contracts. Known finding: normalized() (copy) drops leading empty segments. Not covered: normalized(), idempotence lemma, size_hint.",
    },
    "C10": {
        "technique": "Verus contracts on the real PathMutImpl (exact result text as a spec function + frame) and proved lemmas linking those texts to the '/'-split segment sequence",
        "level_text": "Deductive proof for all buffers and arguments: push, pop, clear and symbolic_push leave everything outside the path window byte-identical (scheme, authority, query, fragment untouched), re-establish the handle invariant (so sequences of edits compose), and produce exactly push_text / pop_text / clear_text / sym_push_text of the old path; proved lemmas state what those texts mean: the segment sequence gains exactly the pushed segment (a '.' appears only as a shield before an empty or ':'-bearing first segment and disappears only where it was one), pop removes the last segment, clear removes all, and the path stays unambiguous in its context (absolute after an authority, no leading '//' without one, no ':' in a first segment that starts the reference).",
        "level_note": "Known finding: pop on '//x' (first segment empty, two segments) yields '/' instead of the single empty segment. Not covered: symbolic_append, normalize, wrappers in uri/ iri/. rlimit 800 (push needs ~30 s).",
    },
    "C05": {
        "technique": "Verus functional + frame postconditions on the real setters over the abstract 5-component view (recomposition lemma proved in Verus)",
        "level_text": "Deductive proof for all buffers and all argument values: after set_scheme / set_authority / set_path / set_query / set_fragment the text is exactly the RFC 3986 5.3 recomposition of the five components with the targeted one replaced or removed and the other four byte-identical; the path differs only by the three documented disambiguations, which the postcondition spells out as the only alternatives; reading the five components back (App. B decomposition of the new text) yields exactly those values (lemma_ref_compose, proved).",
        "level_note": "Assumed: ref_shape and argument shapes as preconditions; splice primitives proved in the same run. Not covered: RiBufImpl::set_scheme/from_scheme, wrappers, membership of the result in the RFC language.",
    },
    "C11": {
        "technique": "Verus data-structure invariant on the real AuthorityMutImpl + functional postconditions over the (prefix, authority, suffix) view",
        "level_text": "Deductive proof for all buffers, all arguments and (by composition of the per-call contracts) all call sequences: each of set_userinfo/set_host/set_port requires the handle invariant (window inside the buffer, window text is a well-shaped authority) and ensures it again, leaves the text before and after the window unchanged, and makes the window text equal to [userinfo '@'] host [':' port] with exactly the targeted part replaced or removed - which is precisely 'the handle views the new authority'.",
        "level_note": "Assumed: shapes of the arguments (consequences of their grammars), utils::replace/allocate_range contracts are proved separately (same run), generated as_bytes/len of Port. Not covered: the one-line wrappers in uri/ iri/.",
    },
    "C12": {
        "technique": "Verus contracts on the real segment scanners and on the double-ended iterator (cursor invariant + per-step postconditions)",
        "level_text": "Deductive proof for all paths: segment_at/next_segment_from/previous_segment_from return exactly the '/'-separated piece at a piece start and the neighbouring piece start; SegmentsImpl::next and next_back preserve the invariant 'front and back cursors are piece starts, front <= back' and yield the first / last remaining piece, so every interleaving yields each piece once and in order (composition of the two contracts, no enumeration of schedules); is_empty, is_absolute, first, last, directory, parent, parent_or_empty are proved against the same positional split.",
        "level_note": "Assumed: path_shape as type invariant; twins (same body as free function) stand for trait-impl/default methods Verus cannot verify in place; file_name/segment_count/NormalizedSegments::len not covered.",
    },
    "C16": {
        "technique": "Verus contracts on the real directory() and base()",
        "level_text": "Deductive proof of the base half: PathImpl::directory returns the prefix up to and including the last '/' (or the empty path), and RiRefImpl::base returns the text up to the start of the path plus that directory. The suffix half is NOT decided.",
        "level_note": "suffix() not under contract; 'base is a valid value of the same kind' relies on a grammar lemma that is not machine-checked.",
    },
    "C01": {
        "technique": "Verus proof that each macro-generated validate (expanded from the current tree) accepts exactly the language of a reference DFA compiled from an independent RFC ABNF transcription",
        "level_text": "Deductive proof over all strings of all lengths for each of the 20 validated types: the expanded `validate` of the current tree (whatever grammar.abnf or cached *.aut.cbor produced it) satisfies `ensures r == lang_X(input@)` where lang_X is the run of a minimal DFA compiled from /verif/spec/rfc398{6,7}.abnf; the loop invariant carries a code-state -> reference-state map that Verus checks. A mismatch yields the shortest distinguishing string, replayed on the real constructor.",
        "level_note": "Trusted: macro expansion = compiled code, slice-cursor rewrite R7, my ABNF transcription and DFA compiler, generated wrappers around validate. Not covered: TryFrom/FromStr/serde routes, from_vec UTF-8 step.",
        "design_ref": "DESIGN.md section 5 C01",
    },
    "C02": {
        "technique": "Verus contracts on the real scanners and accessors (postcondition = RFC 3986 App. B spec function)",
        "level_text": "Deductive proof, all inputs, no bound: every scanner of common/parse.rs and every component accessor of RiRefImpl/RiImpl carries a postcondition equating its result with the RFC 3986 Appendix B decomposition (spec function rfc_parts); Verus discharges every obligation on the current source.",
        "level_note": "Assumed: ref_shape as type invariant (text does not start with ':'), generated new_unchecked/as_bytes keep the text, uri/ iri/ field projections; component validity (G1) not machine-checked; see evidence.trusted_base.",
    },
    "C03": {
        "technique": "Verus contracts on the real authority scanners and AuthorityImpl accessors (postcondition = RFC 3986 3.2 spec function)",
        "level_text": "Deductive proof, all inputs: user_info_or_host/find_user_info/host/find_host/port/find_port and AuthorityImpl::{parts,user_info,host,port} equal the RFC 3986 section 3.2 decomposition rfc_auth under the structural type invariant auth_shape.",
        "level_note": "Assumed: auth_shape (a consequence of the authority grammar) as precondition; generated new_unchecked/as_bytes; part validity (G3) not machine-checked.",
    },
    "C20": {
        "technique": "Verus postconditions on the real decomposers: ranges inside the input, ordered, disjoint",
        "level_text": "Deductive proof of the placement half: every range returned by the decomposers lies inside the input, in the order scheme < authority < path <= query < fragment without overlap, and accessors return sub-slices of the input (text of the result == subrange of the input). Allocation-freedom is NOT decided (not expressible).",
        "level_note": "Allocation-freedom not covered; sub-slice identity relies on the generated new_unchecked being a transmute of the given slice (assumed).",
    },
}

NOT_APPLICABLE = {
    "C04": "check not built yet",
    "C07": "check not built yet",
    "C08": "check not built yet",
    "C13": "check not built yet",
    "C14": "all routes except from_vec and the conversions are emitted by the third-party static-regular-grammar derive or macro_rules templates, generic over serde traits; no item in /repo to put a contract on, and neither Verus nor Kani model fmt/serde",
    "C15": "check not built yet",
    "C17": "the objects are programs (macro invocations) run inside rustc on proc_macro::TokenStream; neither Verus nor Kani can specify or execute syn/quote",
    "C18": "check not built yet",
}
