"""Scratch copy + annotate + run Verus as the compiler of the real iref-core crate.

Nothing here decides a property; it runs the verifier and turns its diagnostics into
named obligations (see annotate.py for naming).
"""
import os, sys, json, re, shutil, subprocess, tempfile, time, hashlib, glob
HERE = os.path.dirname(os.path.abspath(__file__))
VERIF = os.path.dirname(HERE)
sys.path.insert(0, HERE)
import annotate

REPO = os.environ.get("VERIF_REPO", "/repo")
CACHE = os.path.join(VERIF, ".cache")
TOOLCHAIN = "1.98.1-x86_64-unknown-linux-gnu"
CONTRACTS = os.path.join(VERIF, "contracts")


def sh(cmd, **kw):
    return subprocess.run(cmd, stdout=subprocess.PIPE, stderr=subprocess.PIPE, text=True, **kw)


def scratch_root():
    base = os.environ.get("VERIF_SCRATCH", "/tmp")
    return tempfile.mkdtemp(prefix="iref-verif-", dir=base)


def copy_repo(dst):
    r = sh(["rsync", "-a", "--exclude", "target", "--exclude", ".git", REPO + "/", dst + "/"])
    if r.returncode != 0:
        raise RuntimeError("rsync failed: " + r.stderr)


def deps_dir():
    """Dependencies of iref-core compiled with Verus' pinned toolchain. They are third-party
    crates (never part of /repo's working tree), keyed by Cargo.lock + the core manifest."""
    h = hashlib.sha256()
    for p in ("Cargo.lock", "crates/core/Cargo.toml", "Cargo.toml"):
        with open(os.path.join(REPO, p), "rb") as fh:
            h.update(fh.read())
    key = h.hexdigest()[:16]
    tgt = os.path.join(CACHE, "target-" + key)
    stamp = os.path.join(tgt, ".ok")
    if not os.path.exists(stamp):
        os.makedirs(CACHE, exist_ok=True)
        s = scratch_root()
        try:
            copy_repo(s)
            env = dict(os.environ, CARGO_NET_OFFLINE="true", CARGO_TARGET_DIR=tgt)
            r = sh(["cargo", "+" + TOOLCHAIN, "build", "-p", "iref-core", "--offline", "--features", "data"], cwd=s, env=env)
            if r.returncode != 0:
                raise RuntimeError("dependency build failed:\n" + r.stderr[-3000:])
            open(stamp, "w").write("ok")
        finally:
            shutil.rmtree(s, ignore_errors=True)
    return os.path.join(tgt, "debug", "deps")


def _one(pattern):
    g = sorted(glob.glob(pattern))
    if not g:
        raise RuntimeError("missing dependency artefact " + pattern)
    return g[-1]


def verus_args(deps, features=()):
    a = ["--crate-name", "iref_core", "--edition=2021", "src/lib.rs", "--crate-type", "lib",
         "-L", "dependency=" + deps,
         "--extern", "pct_str=" + _one(deps + "/libpct_str-*.rmeta"),
         "--extern", "smallvec=" + _one(deps + "/libsmallvec-*.rmeta"),
         "--extern", "static_regular_grammar=" + _one(deps + "/libstatic_regular_grammar-*.so"),
         "--extern", "thiserror=" + _one(deps + "/libthiserror-*.rmeta")]
    for f in features:
        a += ["--cfg", 'feature="%s"' % f]
    if "data" in features:
        a += ["--extern", "base64=" + _one(deps + "/libbase64-*.rmeta")]
    return a


def prepare(scratch, only=None):
    """copy /repo's working tree, annotate. Returns metadata from annotate_tree."""
    copy_repo(scratch)
    core = os.path.join(scratch, "crates", "core")
    lib = os.path.join(core, "src", "lib.rs")
    src = open(lib).read()
    open(lib, "w").write("use vstd::prelude::*;\npub(crate) mod verif_specs;\n" + src)
    # ghost vocabulary
    parts = []
    for name in sorted(os.listdir(CONTRACTS)):
        if name.endswith(".rs"):
            parts.append("// ---- %s\n" % name + open(os.path.join(CONTRACTS, name)).read())
    open(os.path.join(core, "src", "verif_specs.rs"), "w").write("\n".join(parts))
    meta = annotate.annotate_tree(scratch, CONTRACTS, only=only)
    return meta


def run_verus(scratch, extra=(), rlimit=None, threads=16, timeout=3600):
    core = os.path.join(scratch, "crates", "core")
    deps = deps_dir()
    cmd = ["verus"] + verus_args(deps) + ["--no-lifetime", "--output-json", "--time-expanded", "--error-format=json",
                                          "--num-threads", str(threads), "--multiple-errors", "10"] + list(extra)
    if rlimit:
        cmd += ["--rlimit", str(rlimit)]
    env = dict(os.environ, CARGO_MANIFEST_DIR=core)
    t0 = time.time()
    r = subprocess.run(cmd, cwd=core, env=env, stdout=subprocess.PIPE, stderr=subprocess.PIPE, text=True, timeout=timeout)
    wall = time.time() - t0
    res = None
    try:
        # stdout is one JSON document
        res = json.loads(r.stdout[r.stdout.index("{"):])
    except Exception:
        pass
    diags = []
    for line in r.stderr.split("\n"):
        line = line.strip()
        if line.startswith("{"):
            try:
                diags.append(json.loads(line))
            except Exception:
                pass
    return {"cmd": " ".join(cmd), "returncode": r.returncode, "result": res, "diags": diags, "wall": wall,
            "stderr": r.stderr, "stdout": r.stdout}


def _fn_at(meta, rel, line):
    best = None
    for (a, b, name) in meta["files"].get(rel, {}).get("fnranges", []):
        if a <= line <= b and (best is None or a >= best[0]):
            best = (a, b, name)
    name = best[2] if best else None
    if name and name.split("::")[-1].startswith("twin_"):
        # free-function twin of a trait / trait-impl method: report under the method's name
        parts = name.split("::")
        t = parts[-1][5:]
        c, _, m = t.partition("_")
        name = "::".join(parts[:-1] + [c, m])
    return name


def classify(meta, run):
    """Turn verifier diagnostics into failures: list of dicts
    {obligation, fn, message, kind, file, line, text, rendered}.  kind in
    {postcondition, precondition, invariant, assertion, safety, decreases, other, compile, rlimit}"""
    fails = []
    for d in run["diags"]:
        if d.get("level") != "error":
            continue
        msg = d.get("message", "")
        if msg.startswith("aborting due to") or msg.startswith("could not compile"):
            continue
        spans = d.get("spans", [])
        prim = [s for s in spans if s.get("is_primary")] or spans
        lab = [s for s in spans if s.get("label") and ("failed this" in s["label"] or "failed precondition" in s["label"])]
        kind = "other"
        if "postcondition" in msg:
            kind = "postcondition"
        elif "precondition" in msg:
            kind = "precondition"
        elif "invariant" in msg:
            kind = "invariant"
        elif "assertion" in msg or "assert" in msg:
            kind = "assertion"
        elif "overflow" in msg or "underflow" in msg or "index" in msg or "bounds" in msg or "unwrap" in msg or "divi" in msg or "unreachable" in msg or "unreached" in msg:
            kind = "safety"
        elif "decreases" in msg or "termination" in msg:
            kind = "decreases"
        elif "rlimit" in msg or "Resource limit" in msg or "resource limit" in msg:
            kind = "rlimit"
        is_verif = kind != "other" or "not satisfied" in msg or "failed" in msg
        rel = line = text = None
        ob = None
        fn = None
        def relpath(fname):
            return os.path.normpath(os.path.join("crates/core", fname))
        if prim:
            rel = relpath(prim[0]["file_name"]); line = prim[0]["line_start"]
            text = (prim[0].get("text") or [{}])[0].get("text", "").strip()
            fn = _fn_at(meta, rel, line)
        # which clause failed
        for s in lab + prim:
            r2 = relpath(s["file_name"])
            for ln in range(s["line_start"], s["line_end"] + 1):
                o = meta["files"].get(r2, {}).get("linemap", {}).get(ln) or meta["files"].get(r2, {}).get("linemap", {}).get(str(ln))
                if o:
                    ob = o
                    break
            if ob:
                break
        short = os.path.basename(rel) if rel else "?"
        if kind == "precondition" and prim:
            # call-site obligation: name it by caller + callee clause
            callee_clause = ob
            ob = "%s::%s::call-pre[%s]" % (short, fn, callee_clause or text)
        elif ob is None or (kind in ("safety",) ):
            clean = re.sub(r"/\*@V:.*?\*/", "", text or "").strip()
            ob = "%s::%s::%s[%s]" % (short, fn, kind, clean)
        if not is_verif:
            kind = "compile"
        fails.append({"obligation": ob, "fn": "%s::%s" % (short, fn) if fn else None, "message": msg, "kind": kind,
                      "file": rel, "line": line, "text": text, "rendered": d.get("rendered", "")})
    return fails


def summarize(run):
    res = run.get("result") or {}
    vr = res.get("verification-results", {})
    return {"verified": vr.get("verified"), "errors": vr.get("errors"), "success": vr.get("success"),
            "encountered_vir_error": vr.get("encountered-vir-error"),
            "times_ms": res.get("times-ms", {})}


if __name__ == "__main__":
    import argparse
    ap = argparse.ArgumentParser()
    ap.add_argument("--keep", action="store_true")
    ap.add_argument("--only", nargs="*")
    ap.add_argument("--module", action="append", default=[])
    ap.add_argument("--function")
    ap.add_argument("--rlimit", type=float)
    ap.add_argument("--raw", action="store_true")
    ap.add_argument("--extra", nargs="*", default=[])
    a = ap.parse_args()
    s = scratch_root()
    try:
        try:
            meta = prepare(s, only=a.only)
        except annotate.AnchorLost as e:
            print("ANCHOR-LOST:", e); sys.exit(2)
        extra = []
        for m in a.module:
            extra += ["--verify-only-module", m]
        if a.function:
            extra += ["--verify-function", a.function]
        extra += a.extra
        run = run_verus(s, extra=extra, rlimit=a.rlimit)
        print(json.dumps(summarize(run))[:600])
        fails = classify(meta, run)
        for f in fails:
            print("FAIL", f["kind"], f["obligation"], "|", f["message"], "| %s:%s" % (f["file"], f["line"]))
            if a.raw or f["kind"] in ("compile", "other"):
                print(f["rendered"])
        if run["result"] is None:
            print(run["stderr"][-4000:])
        print("scratch:", s, "wall %.1fs" % run["wall"], "obligations:", len(meta["obligations"]))
    finally:
        if not a.keep:
            shutil.rmtree(s, ignore_errors=True)


def build_replay(scratch):
    """build /verif/replay against the scratch copy of the current tree; returns path of the binary"""
    rdir = os.path.join(scratch, "verif-replay")
    shutil.copytree(os.path.join(VERIF, "replay"), rdir)
    t = open(os.path.join(rdir, "Cargo.toml.in")).read().replace("@CORE@", os.path.join(scratch, "crates", "core"))
    open(os.path.join(rdir, "Cargo.toml"), "w").write(t)
    shutil.copy(os.path.join(REPO, "Cargo.lock"), os.path.join(rdir, "Cargo.lock"))
    tgt = os.path.join(CACHE, "replay-target")
    env = dict(os.environ, CARGO_NET_OFFLINE="true", CARGO_TARGET_DIR=tgt, RUSTFLAGS="-Awarnings")
    r = sh(["cargo", "build", "--offline", "-q"], cwd=rdir, env=env)
    if r.returncode != 0:
        # Cargo.lock of the workspace may not fit the tiny crate; retry without it
        os.remove(os.path.join(rdir, "Cargo.lock"))
        r = sh(["cargo", "build", "--offline", "-q"], cwd=rdir, env=env)
    if r.returncode != 0:
        raise RuntimeError("replay build failed:\n" + r.stderr[-2000:])
    return os.path.join(tgt, "debug", "iref-verif-replay")


def replay(binary, *args, timeout=20):
    r = subprocess.run([binary] + list(args), stdout=subprocess.PIPE, stderr=subprocess.PIPE, text=True, timeout=timeout)
    return r.returncode, r.stdout.strip(), r.stderr.strip()
