"""C13: language facts between the RFC reference automata, as Verus-checked certificates.

A fact is   L(A1) /\\ ... /\\ L(Ak)  <=  L(B)   over sequences of code points (ints).  The set R of
product states reached together is computed by BFS (python) and then CHECKED by Verus:
  - R(start)
  - R(q) /\\ every antecedent moves on c  ==>  R(step(q, c))          (one lemma per state of A1)
  - R(q) /\\ every antecedent accepts in q ==>  B accepts in q
  - induction over the sequence (recursive lemma with decreases)
so the python BFS is untrusted: a wrong R makes a lemma fail.  If the fact is false the BFS yields a
shortest witness sequence, which the caller replays on the real constructors.

The automata are the SAME reference DFAs C01 proves the generated validators equal to (for the current
tree, on every run); C13 = those C01 proofs for Uri/UriRef/Iri/IriRef + these facts + the contracts on
the conversion functions (which use the facts as named axioms).
"""
import os, sys, re, json, subprocess, time
from collections import deque
HERE = os.path.dirname(os.path.abspath(__file__))
sys.path.insert(0, HERE)
import abnf, dfa

MAXC = 0x10FFFF


def has_scheme_dfa():
    """[^:/?#]+ ':' .*   (RFC 3986 App. B: a scheme is present iff ':' comes before any of '/', '?', '#', and not first)"""
    delim = [35, 47, 58, 63]
    def not_delim(t):
        out, lo = [], 0
        for d in delim:
            if lo <= d - 1:
                out.append((lo, d - 1, t))
            lo = d + 1
        out.append((lo, MAXC, t))
        return out
    t0 = not_delim(1)
    t1 = sorted(not_delim(1) + [(58, 58, 2)])
    t2 = [(0, MAXC, 2)]
    return abnf.DFA([t0, t1, t2], {2})


def not_colon_first_dfa():
    """texts that do not start with ':' (type invariant `ref_shape` the scanner contracts assume)"""
    return abnf.DFA([[(0, 57, 1), (59, MAXC, 1)], [(0, MAXC, 1)]], {0, 1})


def ascii_dfa():
    return abnf.DFA([[(0, 127, 0)]], {0})


def automata():
    return {
        "Uri": dfa.reference("rfc3986.abnf", "URI"), "UriRef": dfa.reference("rfc3986.abnf", "URI-reference"),
        "Iri": dfa.reference("rfc3987.abnf", "IRI"), "IriRef": dfa.reference("rfc3987.abnf", "IRI-reference"),
        "HasScheme": has_scheme_dfa(), "Ascii": ascii_dfa(), "NotColonFirst": not_colon_first_dfa(),
    }


# name, antecedents, consequent, meaning
FACTS = [
    ("uri_is_iri", ["Uri"], "Iri", "every URI is an IRI with the same text (Uri::as_iri, UriBuf::into_iri, UriRef::as_iri)"),
    ("uriref_is_iriref", ["UriRef"], "IriRef", "every URI reference is an IRI reference (as_iri_ref, into_iri_ref, From)"),
    ("uri_is_uriref", ["Uri"], "UriRef", "every URI is a URI reference (Uri::as_uri_ref, into_uri_ref, From<UriBuf>)"),
    ("iri_is_iriref", ["Iri"], "IriRef", "every IRI is an IRI reference (Iri::as_iri_ref, into_iri_ref, From<IriBuf>)"),
    ("uriref_with_scheme_is_uri", ["UriRef", "HasScheme"], "Uri", "a URI reference with a scheme is a URI (UriRef::as_uri, try_into_uri, TryFrom)"),
    ("iriref_with_scheme_is_iri", ["IriRef", "HasScheme"], "Iri", "an IRI reference with a scheme is an IRI (IriRef::as_iri, try_into_iri, TryFrom)"),
    ("uri_has_scheme", ["Uri"], "HasScheme", "a URI has a scheme: the conversion fails exactly when there is none"),
    ("iri_has_scheme", ["Iri"], "HasScheme", "an IRI has a scheme"),
    ("uriref_not_colon_first", ["UriRef"], "NotColonFirst", "a URI reference does not start with ':' (ref_shape, the precondition of the scanner contracts and of lemma_has_sch_is_dfa)"),
    ("iriref_not_colon_first", ["IriRef"], "NotColonFirst", "an IRI reference does not start with ':'"),
    ("uriref_is_ascii", ["UriRef"], "Ascii", "URI text is ASCII, hence valid UTF-8 with chars == bytes (from_utf8_unchecked in the upcasts)"),
]


def bfs(As, B):
    """returns (witness or None, reachable tuples).  Tuple = (a1..ak, b); b may be -1 (dead)."""
    start = tuple([0] * len(As) + [0])
    prev = {start: None}
    q = deque([start])
    while q:
        cur = q.popleft()
        a_states, b = cur[:-1], cur[-1]
        if all(a in A.finals for a, A in zip(a_states, As)) and not (b >= 0 and b in B.finals):
            seq, c = [], cur
            while prev[c] is not None:
                c, ch = prev[c]
                seq.append(ch)
            return list(reversed(seq)), prev
        edges = [e for a, A in zip(a_states, As) for e in A.trans[a]] + (B.trans[b] if b >= 0 else [])
        pts = sorted(set([lo for lo, hi, _ in edges] + [hi + 1 for lo, hi, _ in edges]))
        for p0 in pts:
            if p0 > MAXC:
                continue
            na = [A.step(a, p0) for a, A in zip(a_states, As)]
            if any(x < 0 for x in na):
                continue
            nb = B.step(b, p0) if b >= 0 else -1
            nxt = tuple(na + [nb])
            if nxt not in prev:
                prev[nxt] = (cur, p0)
                q.append(nxt)
    return None, prev


def _rel_spec(name, tuples, k):
    """R as nested conditions keyed on the first antecedent state"""
    by = {}
    for t in tuples:
        by.setdefault(t[0], []).append(t[1:])
    args = ", ".join("q%d: int" % i for i in range(k + 1))
    lines = ["pub open spec fn %s_rel(%s) -> bool {" % (name, args)]
    first = True
    for a in sorted(by):
        kw = "if" if first else "else if"
        first = False
        alts = " || ".join("(" + " && ".join("q%d == %d" % (i + 1, v) for i, v in enumerate(rest)) + ")" for rest in sorted(by[a]))
        lines.append("    %s q0 == %d { %s }" % (kw, a, alts))
    lines.append("    else { false }\n}")
    return "\n".join(lines), by


def gen(name, ant_names, con_name, auts):
    As = [auts[n] for n in ant_names]
    B = auts[con_name]
    wit, reach = bfs(As, B)
    if wit is not None:
        return {"fact": name, "status": "false", "witness": wit}
    tuples = sorted(reach)
    k = len(As)
    used = []
    for n in ant_names + [con_name]:
        if n not in used:
            used.append(n)
    parts = ["use vstd::prelude::*;", "verus! {"]
    for n in used:
        parts.append("// %s: %d states" % (n, auts[n].n))
        parts.append(dfa._step_spec(n, auts[n]))
        parts.append("""pub open spec fn %s_run(q: int, s: Seq<int>) -> bool
    decreases s.len()
{
    if q < 0 { false } else if s.len() == 0 { %s_final(q) } else { %s_run(%s_step(q, s[0]), s.drop_first()) }
}""" % (n, n, n, n))
    rel, by = _rel_spec(name, tuples, k)
    parts.append(rel)
    qs = ["q%d" % i for i in range(k + 1)]
    qargs = ", ".join("%s: int" % q for q in qs)
    steps = ["%s_step(q%d, c)" % (n, i) for i, n in enumerate(ant_names)] + ["%s_step(q%d, c)" % (con_name, k)]
    moves = " && ".join("%s >= 0" % s for s in steps[:-1])
    # one step lemma per state of the first antecedent (small queries)
    for a in sorted(by):
        parts.append("""proof fn %s_step_%d(%s, c: int)
    requires q0 == %d, %s_rel(%s), %s,
    ensures %s_rel(%s),
{ }""" % (name, a, qargs, a, name, ", ".join(qs), moves, name, ", ".join(steps)))
    disp = "\n".join("        %s q0 == %d { %s_step_%d(%s, c); }" % ("if" if i == 0 else "else if", a, name, a, ", ".join(qs)) for i, a in enumerate(sorted(by)))
    finals = " && ".join("%s_final(q%d)" % (n, i) for i, n in enumerate(ant_names))
    runs = " && ".join("%s_run(q%d, s)" % (n, i) for i, n in enumerate(ant_names))
    rec_args = ", ".join(steps)
    parts.append("""proof fn %s_final_ok(%s)
    requires %s_rel(%s), %s,
    ensures %s_final(q%d),
{ }
proof fn %s_nonneg(%s)
    requires %s_rel(%s),
    ensures %s,
{ }
proof fn %s_ind(%s, s: Seq<int>)
    requires %s_rel(%s),
    ensures %s ==> %s_run(q%d, s),
    decreases s.len(),
{
    %s_nonneg(%s);
    if s.len() == 0 {
        if %s { %s_final_ok(%s); }
    } else {
        let c = s[0];
        if %s {
%s
            %s_ind(%s, s.drop_first());
        } else {
%s
        }
    }
}
/// FACT %s
pub proof fn fact_%s(s: Seq<int>)
    ensures %s ==> %s_run(0, s),
{
    %s_ind(%s, s);
}
} // verus!
fn main() {}
""" % (name, qargs, name, ", ".join(qs), finals, con_name, k,
       name, qargs, name, ", ".join(qs), " && ".join("%s >= 0" % q for q in qs[:-1]),
       name, qargs, name, ", ".join(qs), runs, con_name, k,
       name, ", ".join(qs),
       finals, name, ", ".join(qs),
       moves, disp, name, rec_args,
       "\n".join("            if %s < 0 { assert(!%s_run(%s, s.drop_first())); }" % (st, n, st) for st, n in zip(steps[:-1], ant_names)),
       name, name, " && ".join("%s_run(0, s)" % n for n in ant_names), con_name,
       name, ", ".join(["0"] * (k + 1))))
    return {"fact": name, "status": "generated", "src": "\n".join(parts), "tuples": len(tuples), "lemmas": len(by) + 3}


def run_verus(path, rlimit=600, timeout=900):
    verus = "verus"
    t0 = time.time()
    try:
        r = subprocess.run([verus, path, "--rlimit", str(rlimit), "--output-json", "--time", "--num-threads", "4"], stdout=subprocess.PIPE, stderr=subprocess.PIPE, text=True, timeout=timeout, cwd=os.path.dirname(path))
    except subprocess.TimeoutExpired:
        return {"ok": False, "timeout": True, "wall": time.time() - t0, "stderr": "timeout"}
    ok = False
    smt = 0.0
    ver = err = None
    try:
        j = json.loads(r.stdout[r.stdout.index("{"):])
        vr = j.get("verification-results", {})
        ver, err = vr.get("verified"), vr.get("errors")
        ok = bool(vr.get("success"))
        smt = ((j.get("times-ms") or {}).get("smt") or {}).get("total", 0) / 1000.0
    except Exception:
        pass
    return {"ok": ok and r.returncode == 0, "verified": ver, "errors": err, "smt_s": smt, "wall": time.time() - t0, "stderr": r.stderr[-3000:], "timeout": False}


def check_all(workdir, rlimit=600, jobs=5):
    from concurrent.futures import ThreadPoolExecutor
    auts = automata()
    os.makedirs(workdir, exist_ok=True)
    gens = [(f, gen(f[0], f[1], f[2], auts)) for f in FACTS]
    def one(x):
        f, g = x
        res = {"fact": f[0], "antecedents": f[1], "consequent": f[2], "meaning": f[3]}
        if g["status"] == "false":
            res.update(status="false", witness=g["witness"])
            return res
        p = os.path.join(workdir, "fact_%s.rs" % f[0])
        open(p, "w").write(g["src"])
        v = run_verus(p, rlimit)
        res.update(status="proved" if v["ok"] else ("timeout" if v.get("timeout") else "failed"), tuples=g["tuples"], lemmas=g["lemmas"],
                   verified=v.get("verified"), errors=v.get("errors"), smt_s=round(v.get("smt_s") or 0, 1), wall_s=round(v["wall"], 1), stderr=v["stderr"][-1500:] if not v["ok"] else "")
        return res
    with ThreadPoolExecutor(max_workers=jobs) as ex:
        return list(ex.map(one, gens))


if __name__ == "__main__":
    import tempfile, shutil
    w = tempfile.mkdtemp(prefix="iref-verif-lang-", dir="/tmp")
    try:
        for r in check_all(w):
            print(json.dumps({k: v for k, v in r.items() if k != "stderr"}))
            if r.get("stderr"):
                print(r["stderr"][-800:])
    finally:
        if "--keep" not in sys.argv:
            shutil.rmtree(w, ignore_errors=True)
        else:
            print(w)
