"""ABNF (RFC 5234 subset) -> interval NFA -> DFA -> minimal DFA.

Supports: rule definitions with continuation lines and `;` comments, alternation `/`,
concatenation, repetition `n*m X`, `*X`, `nX`, groups `( )`, options `[ ]`, case-insensitive
quoted strings, `%x41`, `%x41-5A`, `%x0D.0A`, `%d..`, the core rules ALPHA DIGIT HEXDIG.
Alphabet = non-negative integers (bytes or Unicode scalar values); labels are intervals.
"""
import re, sys
from collections import deque

CORE = {
    "ALPHA": ("alt", [("range", 0x41, 0x5A), ("range", 0x61, 0x7A)]),
    "DIGIT": ("range", 0x30, 0x39),
    "HEXDIG": ("alt", [("range", 0x30, 0x39), ("range", 0x41, 0x46), ("range", 0x61, 0x66)]),   # "A".."F" case-insensitive
}


def parse_rules(text):
    # strip comments, join continuation lines
    lines = []
    for raw in text.split("\n"):
        # remove comment (a ';' outside quotes)
        out, inq = "", False
        for ch in raw:
            if ch == '"':
                inq = not inq
            if ch == ";" and not inq:
                break
            out += ch
        lines.append(out.rstrip())
    rules = {}
    cur = None
    for ln in lines:
        if not ln.strip():
            continue
        m = re.match(r"^([A-Za-z][A-Za-z0-9-]*)\s*=(/?)\s*(.*)$", ln)
        if m and not ln[0].isspace():
            cur = m.group(1)
            if m.group(2) == "/":
                rules[cur] = rules[cur] + " / " + m.group(3)
            else:
                rules[cur] = m.group(3)
        else:
            rules[cur] += " " + ln.strip()
    return {k.lower(): _parse_alt(_tokenize(v)) for k, v in rules.items()}


def _tokenize(s):
    toks = []
    i = 0
    while i < len(s):
        c = s[i]
        if c.isspace():
            i += 1
        elif c == '"':
            j = s.index('"', i + 1)
            toks.append(("str", s[i + 1:j])); i = j + 1
        elif c == "%":
            m = re.match(r"%([xdb])([0-9A-Fa-f]+)((?:\.[0-9A-Fa-f]+)+|-[0-9A-Fa-f]+)?", s[i:])
            base = {"x": 16, "d": 10, "b": 2}[m.group(1)]
            a = int(m.group(2), base)
            if m.group(3) is None:
                toks.append(("range", a, a))
            elif m.group(3).startswith("-"):
                toks.append(("range", a, int(m.group(3)[1:], base)))
            else:
                seq = [a] + [int(x, base) for x in m.group(3)[1:].split(".")]
                toks.append(("seq", seq))
            i += len(m.group(0))
        elif c in "()[]/":
            toks.append((c,)); i += 1
        elif c.isdigit() or c == "*":
            m = re.match(r"(\d*)(\*?)(\d*)", s[i:])
            lo = int(m.group(1)) if m.group(1) else 0
            if m.group(2):
                hi = int(m.group(3)) if m.group(3) else None
            else:
                hi = lo
            toks.append(("rep", lo, hi)); i += len(m.group(0))
        else:
            m = re.match(r"[A-Za-z][A-Za-z0-9-]*", s[i:])
            if not m:
                raise ValueError("bad ABNF near %r" % s[i:i + 20])
            toks.append(("name", m.group(0))); i += len(m.group(0))
    return toks


def _parse_alt(toks):
    alts = [[]]
    depth = 0
    i = 0
    # split on '/' at depth 0
    cur = []
    parts = []
    for t in toks:
        if t[0] in ("(", "["):
            depth += 1
        elif t[0] in (")", "]"):
            depth -= 1
        if t[0] == "/" and depth == 0:
            parts.append(cur); cur = []
        else:
            cur.append(t)
    parts.append(cur)
    nodes = [_parse_concat(p) for p in parts]
    return nodes[0] if len(nodes) == 1 else ("alt", nodes)


def _parse_concat(toks):
    items = []
    i = 0
    while i < len(toks):
        rep = None
        if toks[i][0] == "rep":
            rep = toks[i]; i += 1
        t = toks[i]
        if t[0] in ("(", "["):
            close = ")" if t[0] == "(" else "]"
            depth, j = 1, i + 1
            while depth:
                if toks[j][0] in ("(", "["):
                    depth += 1
                elif toks[j][0] in (")", "]"):
                    depth -= 1
                j += 1
            inner = _parse_alt(toks[i + 1:j - 1])
            node = inner if t[0] == "(" else ("rep", 0, 1, inner)
            i = j
        elif t[0] == "str":
            chars = []
            for ch in t[1]:
                o = ord(ch)
                if ch.isalpha():
                    chars.append(("alt", [("range", ord(ch.upper()), ord(ch.upper())), ("range", ord(ch.lower()), ord(ch.lower()))]))
                else:
                    chars.append(("range", o, o))
            node = ("cat", chars)
            i += 1
        elif t[0] == "range":
            node = ("range", t[1], t[2]); i += 1
        elif t[0] == "seq":
            node = ("cat", [("range", x, x) for x in t[1]]); i += 1
        elif t[0] == "name":
            node = ("ref", t[1].lower()); i += 1
        else:
            raise ValueError("unexpected token %r" % (t,))
        if rep:
            node = ("rep", rep[1], rep[2], node)
        items.append(node)
    return items[0] if len(items) == 1 else ("cat", items)


class NFA:
    def __init__(self):
        self.eps = []      # state -> list of states
        self.tr = []       # state -> list of (lo, hi, target)
    def new(self):
        self.eps.append([]); self.tr.append([])
        return len(self.eps) - 1


def build_nfa(rules, entry):
    nfa = NFA()
    def go(node, depth=0):
        """returns (start, end)"""
        k = node[0]
        if k == "range":
            s, e = nfa.new(), nfa.new()
            nfa.tr[s].append((node[1], node[2], e))
            return s, e
        if k == "ref":
            name = node[1]
            if name.upper() in CORE and name not in rules:
                return go(CORE[name.upper()], depth + 1)
            if depth > 200:
                raise ValueError("recursive grammar at " + name)
            return go(rules[name], depth + 1)
        if k == "cat":
            s = nfa.new()
            cur = s
            for c in node[1]:
                a, b = go(c, depth + 1)
                nfa.eps[cur].append(a)
                cur = b
            return s, cur
        if k == "alt":
            s, e = nfa.new(), nfa.new()
            for c in node[1]:
                a, b = go(c, depth + 1)
                nfa.eps[s].append(a); nfa.eps[b].append(e)
            return s, e
        if k == "rep":
            lo, hi, inner = node[1], node[2], node[3]
            s = nfa.new()
            cur = s
            for _ in range(lo):
                a, b = go(inner, depth + 1)
                nfa.eps[cur].append(a); cur = b
            if hi is None:
                a, b = go(inner, depth + 1)
                e = nfa.new()
                nfa.eps[cur].append(a); nfa.eps[cur].append(e)
                nfa.eps[b].append(a); nfa.eps[b].append(e)
                return s, e
            e = nfa.new()
            nfa.eps[cur].append(e)
            for _ in range(hi - lo):
                a, b = go(inner, depth + 1)
                nfa.eps[cur].append(a); cur = b
                nfa.eps[cur].append(e)
            return s, e
        raise ValueError(k)
    s, e = go(("ref", entry.lower()))
    return nfa, s, e


class DFA:
    """start = 0; trans[q] = sorted list of disjoint (lo, hi, target); missing = reject."""
    def __init__(self, trans, finals):
        self.trans, self.finals = trans, finals
    @property
    def n(self):
        return len(self.trans)
    def step(self, q, c):
        for lo, hi, t in self.trans[q]:
            if lo <= c <= hi:
                return t
        return -1
    def accepts(self, seq):
        q = 0
        for c in seq:
            q = self.step(q, c)
            if q < 0:
                return False
        return q in self.finals


def _closure(nfa, states):
    seen = set(states)
    st = list(states)
    while st:
        x = st.pop()
        for y in nfa.eps[x]:
            if y not in seen:
                seen.add(y); st.append(y)
    return frozenset(seen)


def determinize(nfa, s, e):
    start = _closure(nfa, [s])
    ids = {start: 0}
    trans = [None]
    finals = set()
    q = deque([start])
    while q:
        S = q.popleft()
        sid = ids[S]
        if e in S:
            finals.add(sid)
        edges = [t for x in S for t in nfa.tr[x]]
        pts = sorted(set([lo for lo, hi, _ in edges] + [hi + 1 for lo, hi, _ in edges]))
        out = []
        for a, b in zip(pts, pts[1:]):
            tg = frozenset(t for lo, hi, t in edges if lo <= a and b - 1 <= hi)
            if not tg:
                continue
            T = _closure(nfa, tg)
            if T not in ids:
                ids[T] = len(trans); trans.append(None); q.append(T)
            out.append((a, b - 1, ids[T]))
        trans[sid] = _merge(out)
    return DFA(trans, finals)


def _merge(edges):
    edges = sorted(edges)
    out = []
    for lo, hi, t in edges:
        if out and out[-1][2] == t and out[-1][1] + 1 == lo:
            out[-1] = (out[-1][0], hi, t)
        else:
            out.append((lo, hi, t))
    return out


def minimize(d):
    """Moore partition refinement over the elementary alphabet classes; removes dead and
    unreachable states; renumbers in BFS order from the start state."""
    pts = sorted(set([lo for tr in d.trans for lo, hi, _ in tr] + [hi + 1 for tr in d.trans for lo, hi, _ in tr]))
    classes = [(a, b - 1) for a, b in zip(pts, pts[1:])]
    n = d.n
    DEAD = n
    table = []
    for q in range(n):
        row = []
        for a, b in classes:
            row.append(d.step(q, a) if d.step(q, a) >= 0 else DEAD)
        table.append(row)
    table.append([DEAD] * len(classes))
    part = [1 if q in d.finals else 0 for q in range(n)] + [0]
    while True:
        sig = {}
        new = []
        for q in range(n + 1):
            key = (part[q], tuple(part[t] for t in table[q]))
            if key not in sig:
                sig[key] = len(sig)
            new.append(sig[key])
        if len(sig) == len(set(part)):
            part = new
            break
        part = new
    dead_block = part[DEAD]
    # BFS renumber
    order = {part[0]: 0}
    rep = {part[q]: q for q in range(n, -1, -1)}   # lowest representative wins
    q = deque([part[0]])
    trans = [None]
    while q:
        B = q.popleft()
        r = rep[B]
        out = []
        for (a, b), t in zip(classes, table[r]):
            TB = part[t]
            if TB == dead_block:
                continue
            if TB not in order:
                order[TB] = len(trans); trans.append(None); q.append(TB)
            out.append((a, b, order[TB]))
        trans[order[B]] = _merge(out)
    finals = set(order[part[x]] for x in d.finals if part[x] in order)
    if part[0] == dead_block:
        return DFA([[]], set())
    return DFA(trans, finals)


def compile_entry(abnf_text, entry, exclude=None):
    rules = parse_rules(abnf_text)
    nfa, s, e = build_nfa(rules, entry)
    d = minimize(determinize(nfa, s, e))
    return d


def product_diff(a, b, alphabet_max, holes=()):
    """shortest sequence accepted by exactly one of the DFAs, or None. Also returns the relation
    {state of a -> state of b} (with -1 = dead) reached together."""
    start = (0, 0)
    prev = {start: None}
    q = deque([start])
    rel = {}
    while q:
        x, y = q.popleft()
        rel.setdefault(x, set()).add(y)
        fa = x >= 0 and x in a.finals
        fb = y >= 0 and y in b.finals
        if fa != fb:
            seq = []
            cur = (x, y)
            while prev[cur] is not None:
                cur, c = prev[cur]
                seq.append(c)
            return list(reversed(seq)), rel
        ea = a.trans[x] if x >= 0 else []
        eb = b.trans[y] if y >= 0 else []
        pts = sorted(set([lo for lo, hi, _ in ea + eb] + [hi + 1 for lo, hi, _ in ea + eb] + [h for lo, hi in holes for h in (lo, hi + 1)]))
        for p0, p1 in zip(pts, pts[1:]):
            c = p0
            if c > alphabet_max or any(lo <= c <= hi for lo, hi in holes):
                continue
            nx = a.step(x, c) if x >= 0 else -1
            ny = b.step(y, c) if y >= 0 else -1
            if nx < 0 and ny < 0:
                continue
            if (nx, ny) not in prev:
                prev[(nx, ny)] = ((x, y), c)
                q.append((nx, ny))
    return None, rel


if __name__ == "__main__":
    import os
    here = os.path.dirname(os.path.abspath(__file__))
    for f, entries in (("rfc3986.abnf", ["URI", "URI-reference", "scheme", "authority", "userinfo", "host", "port", "path", "segment", "query", "fragment"]),
                       ("rfc3987.abnf", ["IRI", "IRI-reference", "iauthority", "iuserinfo", "ihost", "ipath", "isegment", "iquery", "ifragment"])):
        text = open(os.path.join(here, "..", "spec", f)).read()
        for e in entries:
            d = compile_entry(text, e)
            print(f, e, "states", d.n, "finals", len(d.finals), "edges", sum(len(t) for t in d.trans))
