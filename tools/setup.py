#!/usr/bin/env python3
"""Offline setup: build iref-core's third-party dependencies with Verus' pinned toolchain (cache), and forget which tree
the replay driver / Kani harness crate were last built from (the next check then recompiles iref-core for sure)."""
import os, sys
sys.path.insert(0, os.path.dirname(os.path.abspath(__file__)))
import engine
for slot in ("replay-build", "kani-build"):
    p = os.path.join(engine.CACHE, slot, "built.hash")
    if os.path.exists(p):
        os.remove(p)
print("deps:", engine.deps_dir())
