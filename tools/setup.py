#!/usr/bin/env python3
"""Offline setup: build iref-core's third-party dependencies with Verus' pinned toolchain (cache)."""
import os, sys
sys.path.insert(0, os.path.dirname(os.path.abspath(__file__)))
import engine
print("deps:", engine.deps_dir())
