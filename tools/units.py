"""Verification units used by check.py. Each returns a dict with obligations / discharged /
violations / undecided / trusted_base / samples ..."""
import os, sys, json, shutil, time, re
HERE = os.path.dirname(os.path.abspath(__file__))
sys.path.insert(0, HERE)
import engine, annotate


def _module_of(rel):
    # crates/core/src/common/parse.rs -> common::parse ; common/mod.rs -> common ; utils.rs -> utils
    p = rel.split("crates/core/src/")[1][:-3]
    parts = p.split("/")
    if parts[-1] == "mod":
        parts = parts[:-1]
    return "::".join(parts)


def trusted_scan():
    import importlib
    sys.path.insert(0, os.path.dirname(HERE))
    import check
    return check.trusted_base_scan()


def run_verus(pid, unit, tier, seed, keep=False):
    t0 = time.time()
    out = {"kind": "verus", "name": unit.get("name", "verus-in-place"), "backend": "Verus 0.2026.09.13 / Z3 (bundled)",
           "violations": [], "undecided": [], "samples": [], "functions": [], "bounded": []}
    s = engine.scratch_root()
    try:
        try:
            meta = engine.prepare(s)
        except annotate.AnchorLost as e:
            out["undecided"].append({"what": "anchor lost while attaching contracts: %s" % e})
            return out
        for l in meta.get("lost", []):
            if pid in l["props"]:
                out["undecided"].append({"what": "contract of %s could not be attached to the current source (%s) - its obligations are undecided" % (l["fn"], l["why"])})
        # a property whose proof calls functions contracted for other properties depends on those
        # contracts holding: their obligations are part of its scope ("include_props")
        pids = set([pid] + unit.get("include_props", []))
        scope_fns = sorted(fn for fn, props in meta["fn_props"].items() if pids & set(props))
        scope_obl = [o for o in meta["obligations"] if pids & set(o["props"])]
        files = sorted(rel for rel in meta["files"] if any(fn.startswith(annotate.short_name(rel) + "::") for fn in scope_fns))
        extra = []
        if tier == "quick":
            specs = unit.get("specs")
            if specs is None:
                specs = [n[:-3] for n in sorted(os.listdir(engine.CONTRACTS)) if n.endswith(".rs")]
            mods = sorted(set([_module_of(r) for r in files] + ["verif_specs::m" + x for x in specs] + unit.get("modules", [])))
            for m in mods:
                extra += ["--verify-only-module", m]
        # modules listed under "per_function" are not verified as a module: each of their functions
        # (and twins) gets its own Verus invocation (fixed, small query context; a heavy function cannot
        # starve or perturb the others), run concurrently with the main run
        from concurrent.futures import ThreadPoolExecutor
        pf_mods = unit.get("per_function", [])
        iso = []
        for m in pf_mods:
            relf = "crates/core/src/" + m.replace("::", "/") + ".rs"
            names = set()
            for (a, b, name) in meta["files"].get(relf, {}).get("fnranges", []):
                if name.startswith("tests::"):
                    continue
                last = name.split("::")[-1]
                names.add(("*" + last) if last.startswith("twin_") else ("*::" + last))
            # only functions that are actually verified (have a contract or a twin)
            keep = set()
            for fn in meta["fn_props"]:
                if fn.startswith(annotate.short_name(relf) + "::"):
                    last = fn.split("::")[-1]
                    keep.add("*::" + last)
                    keep.add("*twin_" + "_".join(fn.split("::")[1:]))
            for pat in sorted(names & keep):
                iso.append((m, pat))
        if tier == "quick" and pf_mods:
            extra = [x for i, x in enumerate(extra) if not (x in pf_mods and i > 0 and extra[i - 1] == "--verify-only-module") and not (x == "--verify-only-module" and i + 1 < len(extra) and extra[i + 1] in pf_mods)]
        def _iso(spec):
            mod, pat = spec
            return spec, engine.run_verus(s, extra=["--verify-only-module", mod, "--verify-function", pat], rlimit=unit.get("iso_rlimit", 1400), threads=1, timeout=1500)
        with ThreadPoolExecutor(max_workers=8) as ex:
            fut_main = ex.submit(engine.run_verus, s, extra, unit.get("rlimit", 800), 8)
            futs = [ex.submit(_iso, i) for i in iso]
            run = fut_main.result()
            iso_runs = [f.result() for f in futs]
        summ = engine.summarize(run)
        fails = engine.classify(meta, run)
        if tier != "quick" and pf_mods:
            # thorough tier verifies the whole crate in the main run; verdicts on per-function modules come from the isolated runs
            fails = [f for f in fails if not any(("/" + m.replace("::", "/") + ".rs") in ("/" + (f["file"] or "")) for m in pf_mods)]
        n_iso_ok = 0
        for (mod, pat), r in iso_runs:
            sm = engine.summarize(r)
            fl = engine.classify(meta, r)
            if r["result"] is None and not fl:
                fl = [{"obligation": "%s::%s(isolated run did not complete)" % (mod, pat), "fn": None, "message": r["stderr"][-300:], "kind": "rlimit", "file": "verif_specs", "line": 0, "text": "", "rendered": ""}]
            if (sm.get("verified") or 0) == 0 and not fl and "twin" not in pat:
                # pattern matched nothing that is verified (e.g. external_body only): ignore
                pass
            n_iso_ok += (sm.get("verified") or 0)
            fails += fl
            out.setdefault("isolated_runs", []).append({"function": pat, "verified": sm.get("verified"), "errors": sm.get("errors"), "wall_s": round(r["wall"], 1)})
        if iso_runs:
            summ["verified"] = (summ.get("verified") or 0) + n_iso_ok
        out["checker_cmd"] = run["cmd"]
        out["rlimit"] = unit.get("rlimit", 800)
        tm = summ.get("times_ms") or {}
        out["smt_time_s"] = round(((tm.get("smt") or {}).get("total", 0)) / 1000.0, 2)
        out["verified_functions"] = summ.get("verified")
        if run["result"] is None or summ.get("encountered_vir_error") or any(f["kind"] == "compile" for f in fails):
            msgs = [f["message"] for f in fails if f["kind"] in ("compile", "other")][:3]
            out["undecided"].append({"what": "verifier could not process the annotated crate (unsupported construct / type error): %s" % "; ".join(msgs or [run["stderr"][-300:]])})
            return out
        # A contract that could not be attached leaves its function without specification: callers then fail for that
        # reason alone. Such failures are not evidence against the code -> undecided, never an alarm.
        lost_any = meta.get("lost", [])
        failed_ids = set()
        for f in fails:
            if lost_any and f["kind"] not in ("rlimit", "compile"):
                in_scope0 = (f["fn"] in scope_fns) or "verif_specs" in (f["file"] or "")
                if in_scope0:
                    out["undecided"].append({"what": "obligation %s failed, but the contract of %s could not be attached to the current source in this run (%s): the failure may stem from the missing contract" % (
                        f["obligation"], ", ".join(sorted(set(l["fn"] for l in lost_any))), "; ".join(sorted(set(l["why"][:120] for l in lost_any))[:2]))})
                continue
            in_scope = (f["fn"] in scope_fns) or "verif_specs" in (f["file"] or "")
            if not in_scope:
                continue
            if f["kind"] == "rlimit":
                out["undecided"].append({"what": "resource limit on %s" % f["obligation"]})
                continue
            failed_ids.add(f["obligation"])
            out["violations"].append({"obligation": f["obligation"], "message": f["message"], "kind": f["kind"],
                                      "function": f["fn"], "verifier_output": f["rendered"][:4000], "input": None})
        # lemmas of the spec modules this unit verifies (each proved lemma is one obligation)
        n_lem = 0
        for x in (unit.get("specs") or [n[:-3] for n in sorted(os.listdir(engine.CONTRACTS)) if n.endswith(".rs")]):
            txt = open(os.path.join(engine.CONTRACTS, x + ".rs")).read()
            n_lem += len(re.findall(r"(?<!external_body\]\n)(?:pub )?proof fn \w+", txt))
        out["lemmas"] = n_lem
        n_obl = len(scope_obl) + len(scope_fns) + n_lem   # + one safety/termination obligation per function body
        out["obligations"] = n_obl
        out["discharged"] = n_obl - len(failed_ids)
        out["functions"] = scope_fns
        out["samples"] = [o["id"] for o in scope_obl[:10]]
        out["trusted_base"] = trusted_scan() + ["Verus + Z3", "rustc 1.98.1 front end", "rewrites R1-R9 of DESIGN.md section 3"]
        out["wall_s"] = round(time.time() - t0, 2)
        if summ.get("verified", 0) in (0, None):
            out["undecided"].append({"what": "verifier reported 0 verified functions (vacuity guard)"})
        return out
    finally:
        if not keep:
            shutil.rmtree(s, ignore_errors=True)


def run_dfa(pid, unit, tier, seed, keep=False):
    """C01: generated validators == RFC reference DFAs (Verus), counterexample = shortest
    distinguishing string replayed on the real constructor."""
    import dfa
    t0 = time.time()
    out = {"kind": "dfa", "name": unit.get("name", "generated automata vs RFC reference DFAs"), "backend": "Verus 0.2026.09.13 / Z3 (bundled); witness map by product BFS (python)",
           "violations": [], "undecided": [], "samples": [], "functions": [], "bounded": []}
    s = engine.scratch_root()
    w = engine.scratch_root()
    try:
        engine.copy_repo(s)
        try:
            results, expand_cmd = dfa.check_all(s, w, tier=tier, rlimit=unit.get("rlimit", 600), only=unit.get("only"))
        except Exception as e:
            out["undecided"].append({"what": "C01 pipeline could not run: %s" % e})
            return out
        out["checker_cmd"] = "verus dfa_<family>_<Type>.rs --rlimit %s   (20 files generated from: %s)" % (unit.get("rlimit", 600), expand_cmd[:200] + " ...")
        out["rlimit"] = unit.get("rlimit", 600)
        n_obl = 0
        n_ok = 0
        smt = 0.0
        replay_bin = None
        for r in results:
            if r.get("status") == "skipped":
                continue
            # per type: postcondition, loop invariant (init + preservation), termination
            n_obl += 4
            smt += r.get("smt_s") or 0
            ob = "C01::%s::validate::ensures(r == lang_%s)" % (r["type"], (r.get("production") or "?").split(":")[-1])
            out["functions"].append("%s::validate (expanded, R7)" % r["type"])
            if r["status"] == "proved":
                n_ok += 4
                out["samples"].append({"type": r["type"], "production": r.get("production"), "code_states": r.get("code_states"), "reference_states": r.get("ref_states"), "smt_s": r.get("smt_s")})
            elif r["status"] in ("differs", "failed"):
                v = {"obligation": ob, "message": "generated automaton and RFC production accept different languages" if r["status"] == "differs" else "Verus could not establish the invariant",
                     "kind": "postcondition", "function": r["type"] + "::validate", "verifier_output": (r.get("verus_stderr") or "")[-3000:], "input": None}
                if r.get("witness") is not None:
                    wit = r["witness"]
                    try:
                        text = bytes(wit) if r["elem"] == "u8" else "".join(chr(c) for c in wit).encode("utf-8")
                        if replay_bin is None:
                            replay_bin = engine.build_replay(s)
                        fam, ty = r["type"].split("::")
                        rc, so, se = engine.replay(replay_bin, "new", fam, ty, text.hex())
                        v["input"] = {"op": "new", "family": fam, "type": ty, "text_hex": text.hex(), "text": text.decode("utf-8", "replace"),
                                      "rfc_language": r.get("witness_in_rfc_language"), "real_constructor": so or se}
                        confirmed = (so == "accept") != bool(r.get("witness_in_rfc_language"))
                        v["replay_confirms"] = confirmed
                        if not confirmed:
                            v["input"] = None
                            v["message"] += " (witness from the automata did not reproduce on the real constructor)"
                    except Exception as e:
                        v["message"] += " (replay failed: %s)" % e
                out["violations"].append(v)
            else:
                out["undecided"].append({"what": "%s: %s" % (r["type"], r.get("detail", r["status"]))})
        out["obligations"] = n_obl
        out["discharged"] = n_ok
        out["smt_time_s"] = round(smt, 1)
        out["trusted_base"] = ["Verus + Z3", "rustc -Zunpretty=expanded output is the code rustc compiles",
                               "R7: `input.next()` on slice::iter().copied() / str::chars() replaced by a slice cursor (iterator protocol and UTF-8 decoding of str::chars assumed)",
                               "the generated `new`/`TryFrom`/`FromStr`/serde wrappers call `validate` and keep the text (dependency output; not proved)",
                               "/verif/spec/rfc3986.abnf and rfc3987.abnf are faithful transcriptions of the RFC productions; tools/abnf.py compiles them correctly (reference DFA construction is not verified; an error there shows up as a mismatch, not as a silent pass, unless it coincides with the same error in the repository's automata)"]
        out["wall_s"] = round(time.time() - t0, 1)
        return out
    finally:
        shutil.rmtree(s, ignore_errors=True)
        if not keep:
            shutil.rmtree(w, ignore_errors=True)


def run_lang(pid, unit, tier, seed, keep=False):
    """C13: grammar facts between the RFC reference automata, each a Verus-checked certificate (tools/langlemmas.py)"""
    import langlemmas, dfa
    t0 = time.time()
    out = {"kind": "lang", "name": unit.get("name", "language facts (automata certificates)"), "backend": "Verus 0.2026.09.13 / Z3 (bundled); reachable product states by BFS (python, untrusted: checked by the lemmas)",
           "violations": [], "undecided": [], "samples": [], "functions": [], "bounded": [], "obligations": 0, "discharged": 0}
    w = engine.scratch_root()
    try:
        # the HasScheme automaton used by the in-crate lemma must be the generator's
        txt = open(os.path.join(engine.CONTRACTS, "11_langs.rs")).read()
        gen = dfa._step_spec("HasScheme", langlemmas.has_scheme_dfa())
        if gen not in txt:
            out["undecided"].append({"what": "contracts/11_langs.rs does not contain the HasScheme automaton the certificate generator emits (regenerate it)"})
            return out
        res = langlemmas.check_all(w, rlimit=unit.get("rlimit", 600))
        smt = 0.0
        for r in res:
            n = (r.get("lemmas") or 1) + 1
            out["obligations"] += n
            smt += r.get("smt_s") or 0
            ob = "lang::fact_%s" % r["fact"]
            if r["status"] == "proved":
                out["discharged"] += n
                out["samples"].append({"fact": r["fact"], "statement": "%s <= %s" % (" /\\ ".join(r["antecedents"]), r["consequent"]), "product_states": r.get("tuples"), "lemmas": r.get("lemmas"), "smt_s": r.get("smt_s")})
            elif r["status"] == "false":
                text = "".join(chr(c) for c in r["witness"]).encode("utf-8")
                out["violations"].append({"obligation": ob, "message": "the fact is FALSE on the reference automata: %s; witness %r" % (r["meaning"], text.decode("utf-8", "replace")),
                                          "kind": "lemma", "function": None, "verifier_output": "", "input": {"op": "text", "text_hex": text.hex(), "text": text.decode("utf-8", "replace")}})
            elif r["status"] == "timeout":
                out["undecided"].append({"what": "certificate %s timed out" % r["fact"]})
            else:
                out["undecided"].append({"what": "certificate %s rejected by Verus (generator/BFS defect, not a property violation): %s" % (r["fact"], (r.get("stderr") or "")[-300:])})
        out["functions"] = ["fact_%s" % f[0] for f in langlemmas.FACTS]
        out["checker_cmd"] = "verus fact_<name>.rs --rlimit %s  (%d files generated by tools/langlemmas.py from /verif/spec/*.abnf)" % (unit.get("rlimit", 600), len(res))
        out["smt_time_s"] = round(smt, 1)
        out["trusted_base"] = ["Verus + Z3", "/verif/spec/rfc3986.abnf, rfc3987.abnf and tools/abnf.py (same reference automata as C01: an error there shows up in C01 as a mismatch with the generated validators)",
                               "hand-built automata HasScheme / Ascii / NotColonFirst (3, 1 and 2 states) mean what their names say"]
        out["wall_s"] = round(time.time() - t0, 1)
        return out
    finally:
        if not keep:
            shutil.rmtree(w, ignore_errors=True)


def run_comp(pid, unit, tier, seed, keep=False):
    """G1a: component-validity facts over the RFC reference automata, each a Verus-checked certificate (tools/complemmas.py).
    They do not depend on /repo: they back the named axioms of contracts/15_comps.rs."""
    import complemmas
    t0 = time.time()
    out = {"kind": "comp", "name": unit.get("name", "component-validity certificates"), "backend": "Verus 0.2026.09.13 / Z3 (bundled); state regions and product relations proposed by BFS (python, untrusted: checked by the lemmas)",
           "violations": [], "undecided": [], "samples": [], "functions": [], "bounded": [], "obligations": 0, "discharged": 0}
    w = engine.scratch_root()
    try:
        res = complemmas.check_all(w, rlimit=unit.get("rlimit", 600), only=unit.get("only"))
        n_ref, bad_refs = complemmas.check_axiom_refs(engine.CONTRACTS)
        for b in bad_refs:
            out["undecided"].append({"what": "in-crate axiom without its certificate: %s" % b})
        n_cmp, bad_stmts = complemmas.check_axiom_statements(engine.CONTRACTS)
        for b in bad_stmts:
            out["undecided"].append({"what": "in-crate axiom no longer states what its certificate proves (after mechanical normalisation): %s" % b})
        out["axiom_references_checked"] = n_ref
        out["axiom_statements_compared"] = n_cmp
        smt = 0.0
        for r in res:
            n = (r.get("lemmas") or 1) + 1
            out["obligations"] += n
            smt += r.get("smt_s") or 0
            if r["status"] == "proved":
                out["discharged"] += n
                out["samples"].append({"certificate": r["fact"], "product_pairs": r.get("pairs"), "lemmas": r.get("lemmas"), "verified_functions": r.get("verified"), "smt_s": r.get("smt_s")})
            elif r["status"] == "timeout":
                out["undecided"].append({"what": "certificate %s timed out" % r["fact"]})
            else:
                out["undecided"].append({"what": "certificate %s rejected by Verus (a fact about the RFC grammar, independent of /repo; generator defect or false fact): %s" % (r["fact"], (r.get("stderr") or "")[-300:])})
        out["functions"] = ["comp_%s" % k for k in complemmas.CERTS if not unit.get("only") or k in unit.get("only")]
        out["checker_cmd"] = "verus comp_<name>.rs --rlimit %s  (%d files generated by tools/complemmas.py from /verif/spec/*.abnf)" % (unit.get("rlimit", 600), len(res))
        out["smt_time_s"] = round(smt, 1)
        out["trusted_base"] = ["Verus + Z3", "/verif/spec/rfc3986.abnf and tools/abnf.py (same reference automata as C01)",
                               "the axioms of contracts/15_comps.rs .. 18_shapes.rs restate certificate theorems; for the 20 axioms that name one theorem the requires / ensures are COMPARED mechanically with the generated certificate on every run after a stated normalisation (complemmas._canon: Seq<u8> for Seq<int>, lang_x(t) for X_run(0, t), named character classes, sqN for seq![..], subrange for skip); axiom_shapes (8 theorems in one) corresponds by inspection"]
        out["wall_s"] = round(time.time() - t0, 1)
        return out
    finally:
        if not keep:
            shutil.rmtree(w, ignore_errors=True)


def _kani_counterexample(out):
    """extract concrete values printed by `--concrete-playback=print` (list of byte lists)"""
    vals = []
    for m in re.finditer(r"//\s*(\d+)\s*\n\s*vec!\[([0-9, ]+)\]", out):
        vals.append([int(x) for x in m.group(2).split(",") if x.strip()])
    return vals


def run_kani(pid, unit, tier, seed, keep=False):
    """bounded stand-ins: every harness is exhaustive up to the bound in its name; never counted as proved"""
    from concurrent.futures import ThreadPoolExecutor
    t0 = time.time()
    out = {"kind": "kani", "name": unit.get("name", "bounded Kani harnesses"), "backend": "Kani 0.68 / CBMC 6.11",
           "violations": [], "undecided": [], "samples": [], "functions": [], "bounded": [], "obligations": 0, "discharged": 0}
    hs = [h for h in unit["harnesses"] if tier == "thorough" or not h.get("thorough_only")]
    s = engine.scratch_root()
    try:
        engine.copy_repo(s)
        if not hs:
            return out
        # first harness compiles the crate; the others reuse the build
        # all harnesses start together: cargo serialises the one compilation of the crate on its build lock
        with engine.kani_slot(s) as k:
            with ThreadPoolExecutor(max_workers=unit.get("jobs", 4)) as ex:
                results = list(ex.map(lambda h: engine.run_kani(k, h["name"], timeout=h.get("timeout", 900), extra=["-Z", "concrete-playback", "--concrete-playback=print"]), hs))
        out["checker_cmd"] = results[0]["cmd"]
        for h, r in zip(hs, results):
            rec = {"harness": h["name"], "bound": h["bound"], "bounded": True, "wall_s": round(r["wall"], 1)}
            ok = r["rc"] == 0 and "VERIFICATION:- SUCCESSFUL" in r["out"]
            failed = "VERIFICATION:- FAILED" in r["out"]
            if ok:
                rec["result"] = "no violation up to the bound"
                m = re.search(r"\*\* 0 of (\d+) failed", r["out"])
                rec["cbmc_checks"] = int(m.group(1)) if m else None
            elif failed:
                rec["result"] = "FAILED"
                fl = re.findall(r"Failed Checks: (.*)", r["out"])
                vals = _kani_counterexample(r["out"])
                out["violations"].append({"obligation": "kani::%s (bounded: %s)" % (h["name"], h["bound"]), "message": "; ".join(fl[:4]) or "assertion failed in the harness",
                                          "kind": "bounded", "function": h["name"], "verifier_output": r["out"][-4000:],
                                          "input": {"op": "kani-playback", "harness": h["name"], "concrete_values": vals[:24]} if vals else None})
            else:
                rec["result"] = "undecided (timeout / tool error)"
                out["undecided"].append({"what": "kani harness %s did not finish (rc=%s)" % (h["name"], r["rc"])})
            out["bounded"].append(rec)
        out["trusted_base"] = ["Kani/CBMC (bounded model checking up to the stated input length; unwinding assertions on)"]
        out["wall_s"] = round(time.time() - t0, 1)
        return out
    finally:
        if not keep:
            shutil.rmtree(s, ignore_errors=True)
