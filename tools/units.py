"""Verification units used by check.py. Each returns a dict with obligations / discharged /
violations / undecided / trusted_base / samples ..."""
import os, sys, json, shutil, time, re
HERE = os.path.dirname(os.path.abspath(__file__))
sys.path.insert(0, HERE)
import engine, annotate


def _module_of(rel):
    # crates/core/src/common/parse.rs -> common::parse ; common/mod.rs -> common ; utils.rs -> utils
    p = rel.split("crates/core/src/")[1][:-3]
    parts = p.split("/")
    if parts[-1] == "mod":
        parts = parts[:-1]
    return "::".join(parts)


def trusted_scan():
    import importlib
    sys.path.insert(0, os.path.dirname(HERE))
    import check
    return check.trusted_base_scan()


def run_verus(pid, unit, tier, seed, keep=False):
    t0 = time.time()
    out = {"kind": "verus", "name": unit.get("name", "verus-in-place"), "backend": "Verus 0.2026.09.13 / Z3 (bundled)",
           "violations": [], "undecided": [], "samples": [], "functions": [], "bounded": []}
    s = engine.scratch_root()
    try:
        try:
            meta = engine.prepare(s)
        except annotate.AnchorLost as e:
            out["undecided"].append({"what": "anchor lost while attaching contracts: %s" % e})
            return out
        scope_fns = sorted(fn for fn, props in meta["fn_props"].items() if pid in props)
        scope_obl = [o for o in meta["obligations"] if pid in o["props"]]
        files = sorted(rel for rel in meta["files"] if any(fn.startswith(os.path.basename(rel) + "::") for fn in scope_fns))
        extra = []
        if tier == "quick":
            mods = sorted(set([_module_of(r) for r in files] + ["verif_specs"] + unit.get("modules", [])))
            for m in mods:
                extra += ["--verify-only-module", m]
        run = engine.run_verus(s, extra=extra, rlimit=unit.get("rlimit"))
        summ = engine.summarize(run)
        fails = engine.classify(meta, run)
        out["checker_cmd"] = run["cmd"]
        out["rlimit"] = unit.get("rlimit", 10)
        tm = summ.get("times_ms") or {}
        out["smt_time_s"] = round(((tm.get("smt") or {}).get("total", 0)) / 1000.0, 2)
        out["verified_functions"] = summ.get("verified")
        if run["result"] is None or summ.get("encountered_vir_error") or any(f["kind"] == "compile" for f in fails):
            msgs = [f["message"] for f in fails if f["kind"] in ("compile", "other")][:3]
            out["undecided"].append({"what": "verifier could not process the annotated crate (unsupported construct / type error): %s" % "; ".join(msgs or [run["stderr"][-300:]])})
            return out
        failed_ids = set()
        for f in fails:
            in_scope = (f["fn"] in scope_fns) or (f["file"] or "").endswith("verif_specs.rs")
            if not in_scope:
                continue
            if f["kind"] == "rlimit":
                out["undecided"].append({"what": "resource limit on %s" % f["obligation"]})
                continue
            failed_ids.add(f["obligation"])
            out["violations"].append({"obligation": f["obligation"], "message": f["message"], "kind": f["kind"],
                                      "function": f["fn"], "verifier_output": f["rendered"][:4000], "input": None})
        n_obl = len(scope_obl) + len(scope_fns)   # + one safety/termination obligation per function body
        out["obligations"] = n_obl
        out["discharged"] = n_obl - len(failed_ids)
        out["functions"] = scope_fns
        out["samples"] = [o["id"] for o in scope_obl[:10]]
        out["trusted_base"] = trusted_scan() + ["Verus + Z3", "rustc 1.98.1 front end", "rewrites R1-R9 of DESIGN.md section 3"]
        out["wall_s"] = round(time.time() - t0, 2)
        if summ.get("verified", 0) in (0, None):
            out["undecided"].append({"what": "verifier reported 0 verified functions (vacuity guard)"})
        return out
    finally:
        if not keep:
            shutil.rmtree(s, ignore_errors=True)
