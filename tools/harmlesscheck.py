#!/usr/bin/env python3
"""harmlesscheck.py : re-run the owning checks on every stored behaviour-preserving refactoring (seeded_harmless/*.diff).
Expected: no VIOLATION (exit 0, or 2 = undecided). Prints one line per patch."""
import os, sys, re, subprocess, shutil, tempfile, glob
_VERIF = os.path.dirname(os.path.dirname(os.path.abspath(__file__)))   # the tree this script belongs to (a vp-run snapshot runs ITS OWN checks)
from concurrent.futures import ThreadPoolExecutor
D = os.path.join(_VERIF, "seeded_harmless")
MAP = [("common/parse.rs", ["C02", "C03"]), ("common/reference.rs", ["C05", "C06"]), ("common/path.rs", ["C12", "C09", "C16"]),
       ("common/path_mut.rs", ["C10", "C09"]), ("common/authority_mut.rs", ["C11"]), ("utils.rs", ["C05"]), ("common/authority.rs", ["C03"]),
       ("src/uri/", ["C13", "C07", "C08"]), ("src/iri/", ["C13", "C07", "C08"]),
       # facade wrappers proved by R26 (contracts/deleg.vspec) belong to the checks of their delegates
       ("uri/path.rs", ["C12"]), ("iri/path.rs", ["C12"]), ("uri/authority.rs", ["C03"]), ("iri/authority.rs", ["C03"]),
       ("uri/reference.rs", ["C02", "C05"]), ("iri/reference.rs", ["C02", "C05"]), ("uri/mod.rs", ["C02", "C05"]), ("iri/mod.rs", ["C02", "C05"])]
ONLY = sys.argv[1:]
def one(pf):
    txt = open(pf).read()
    props = []
    for k, ps in MAP:
        if k in txt:
            props += [p for p in ps if p not in props]
    mut = tempfile.mkdtemp(prefix="rf-mut-", dir="/tmp")
    try:
        subprocess.run(["rsync", "-a", "--exclude", "target", "--exclude", ".git", "/repo/", mut + "/"], check=True)
        r = subprocess.run(["git", "apply", "--unsafe-paths", "--directory=" + mut, pf], cwd="/", stdout=subprocess.PIPE, stderr=subprocess.STDOUT, text=True)
        if r.returncode != 0:
            return os.path.basename(pf), {"patch": "does not apply"}
        res = {}
        for p in props:
            r = subprocess.run(["./check.py", p], cwd=_VERIF, env=dict(os.environ, VERIF_REPO=mut), stdout=subprocess.PIPE, stderr=subprocess.STDOUT, text=True)
            res[p] = r.returncode
        return os.path.basename(pf), res
    finally:
        shutil.rmtree(mut, ignore_errors=True)
bad = 0
with ThreadPoolExecutor(max_workers=int(os.environ.get("JOBS", "2"))) as ex:
    for name, res in ex.map(one, [f for f in sorted(glob.glob(os.path.join(D, "*.diff"))) if not ONLY or any(o in f for o in ONLY)]):
        flag = "  <-- ALARM" if any(v == 1 for v in res.values() if isinstance(v, int)) else ""
        bad += bool(flag)
        print(name, res, flag, flush=True)
print("alarms:", bad)
