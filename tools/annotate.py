"""Insert contracts from /verif/contracts/*.vspec into a scratch copy of /repo.

The verified text is the repository's own source: this tool only *adds* specification
text (requires/ensures/invariant/decreases, proof blocks, ghost items, attributes) at
positions found structurally (function name, loop ordinal, closure ordinal), plus the
small behaviour-preserving rewrites listed in DESIGN.md section 3.  Every inserted line
carries a marker comment `/*@V:<obligation id>*/` so verifier diagnostics can be mapped
back to a named obligation.

.vspec format (line oriented; a directive starts with `@`, everything else is block text):
  @file <path relative to repo root>
  @wrap                      wrap the whole file in verus!{ }
  @top / @bottom             text placed at the start / end of the file, inside verus!
  @file-replace /regex/      (block = replacement) exactly one match in the file
  @fn <container::name>      start a function section (suffix match on the item path)
  @props C02 C20             properties the function's obligations belong to
  @attr <text>               attribute placed in front of the item
  @ret <name>                name the return value: `-> T` becomes `-> (name: T)`
  @spec                      block placed between the signature and the body (or `;`)
  @loop N                    block placed between the N-th loop header and its `{`
  @at entry | loop N start | loop N end | after loop N | before /re/ | after /re/ | end
  @closure N                 block = typed closure header replacing `|..|`; body gets braces
  @replace /regex/           block = replacement, exactly one match inside the function item
  @break-value-loops         R2: `let x = loop { .. break V .. }` -> `let x; loop { .. { x = V; break; } .. }`
"""
import os, re, sys, json
sys.path.insert(0, os.path.dirname(os.path.abspath(__file__)))
import rustlex


class AnchorLost(Exception):
    pass


class Block:
    def __init__(self, kind, arg, lineno):
        self.kind, self.arg, self.lineno = kind, arg, lineno
        self.lines = []


def _nows(x):
    return re.sub(r"\s+", "", x)


class FnSpec:
    def __init__(self, path, lineno):
        # `@fn Type::method impl Trait<Args>` selects the method of that trait impl (a type may implement
        # PartialEq<X> for several X); the selector also names the twin and the obligation ids
        self.impl_sel = None
        m = re.match(r"^(\S+)\s+impl\s+(.+)$", path)
        if m:
            path, self.impl_sel = m.group(1), m.group(2).strip()
        self.suffix = ("_for_" + re.sub(r"[^A-Za-z0-9]+", "_", self.impl_sel).strip("_")) if self.impl_sel else ""
        self.path, self.lineno = path, lineno
        self.props = []
        self.blocks = []
        self.twin = None
        self.twin_subst = []
        self.drop_body = False
        self.split = []
        self.aliases = []


class FileSpec:
    def __init__(self, path):
        self.path = path
        self.wrap = False
        self.wrap_from = None
        self.blocks = []     # top / bottom / file-replace
        self.fns = []


def parse_vspec(text, origin="<vspec>"):
    files = []
    cur_file = None
    cur_fn = None
    cur_block = None
    for ln, raw in enumerate(text.split("\n"), 1):
        line = raw.rstrip("\n")
        s = line.strip()
        if s.startswith("@@"):
            # escaped literal line starting with '@'
            if cur_block is not None:
                cur_block.lines.append(line.replace("@@", "@", 1))
            continue
        if s.startswith("@") and not s.startswith("@V:"):
            parts = s.split(None, 1)
            d = parts[0]
            arg = parts[1] if len(parts) > 1 else ""
            cur_block = None
            if d == "@file":
                cur_file = FileSpec(arg.strip()); files.append(cur_file); cur_fn = None
            elif d == "@wrap":
                cur_file.wrap = True
            elif d == "@wrap-from":
                cur_file.wrap = True
                cur_file.wrap_from = arg.strip()[1:-1]
            elif d in ("@top", "@bottom", "@file-replace", "@pre-replace", "@pre-replace-code", "@require", "@derived"):
                cur_fn = None
                cur_block = Block(d[1:], arg, ln); cur_file.blocks.append(cur_block)
            elif d == "@fn":
                cur_fn = FnSpec(arg.strip(), ln); cur_file.fns.append(cur_fn)
            elif d == "@props":
                cur_fn.props = arg.split()
            elif d in ("@attr", "@ret"):
                b = Block(d[1:], arg, ln); cur_fn.blocks.append(b)
            elif d == "@match-consts":
                cur_fn.blocks.append(Block("match-consts", arg, ln))
            elif d in ("@spec", "@loop", "@at", "@closure", "@replace", "@replace-all", "@spec-impl"):
                cur_block = Block(d[1:], arg, ln); cur_fn.blocks.append(cur_block)
            elif d == "@eq-method":
                cur_fn.blocks.append(Block("eq-method", arg, ln))
            elif d == "@break-value-loops":
                cur_fn.blocks.append(Block("bvl", "", ln))
            elif d == "@desugar-for":
                cur_block = Block("desugar-for", arg, ln); cur_fn.blocks.append(cur_block)
            elif d == "@twin":
                cur_fn.twin = arg.strip()
            elif d == "@twin-subst":
                a, b = arg.split("=>")
                cur_fn.twin_subst.append((a.strip(), b.strip()))
            elif d == "@alias":
                # @alias <name used in this overlay> /regex with one group capturing the identifier in the source/
                nm, rx_ = arg.strip().split(None, 1)
                cur_fn.aliases.append((nm, rx_.strip()[1:-1]))
            elif d == "@drop-body":
                cur_fn.drop_body = True
            elif d == "@split-at":
                cur_fn.split.append(arg.strip()[1:-1])
            elif d == "@#":
                pass
            else:
                raise ValueError("%s:%d: unknown directive %s" % (origin, ln, d))
            continue
        if s.startswith("#!"):
            continue  # comment line in vspec
        if cur_block is not None:
            cur_block.lines.append(line)
    return files


def _strip_blank(lines):
    while lines and not lines[-1].strip():
        lines = lines[:-1]
    while lines and not lines[0].strip():
        lines = lines[1:]
    return lines


def _mark_clauses(lines, base_id):
    """Tag each line with a clause id. A clause ends at a line whose last char (ignoring
    comments) is ',' at bracket depth 0; a bare keyword line (requires/ensures/...) opens a section."""
    out = []
    section = None
    counters = {}
    depth = 0
    cur = None
    ids = []
    for line in lines:
        s = line.strip()
        code = re.sub(r"//.*$", "", s).strip()
        if not code or (code.startswith("/*") and code.endswith("*/")):
            out.append(line)
            continue
        m = re.match(r"^(requires|ensures|invariant|invariant_except_break|decreases|recommends|no_unwind|opens_invariants|returns)\b(.*)$", code)
        if m and depth == 0:
            section = m.group(1)
            rest = m.group(2).strip()
            if not rest:
                out.append(line)
                continue
        if section is None:
            section = "proof"
        if cur is None:
            counters[section] = counters.get(section, 0) + 1
            cur = "%s::%s#%d" % (base_id, section, counters[section])
            ids.append(cur)
        out.append(line + "   /*@V:%s*/" % cur)
        for ch in re.sub(r'"[^"]*"', "", code):
            if ch in "([{":
                depth += 1
            elif ch in ")]}":
                depth -= 1
        if depth <= 0 and code.endswith(","):
            cur = None
            depth = 0
    return out, ids


def _find_fn(fns, path, relfile, impl_sel=None):
    want = path.split("::")
    cands = []
    for f in fns:
        full = f.container + [f.name]
        if "tests" in f.container:
            continue
        if impl_sel is not None:
            tf = _nows(getattr(f, "trait_full", None) or "")
            if not (tf == _nows(impl_sel) or tf.endswith("::" + _nows(impl_sel))):
                continue
        if full[-len(want):] == want:
            cands.append(f)
    if len(cands) != 1:
        raise AnchorLost("%s: function `%s` matched %d items" % (relfile, path, len(cands)))
    return cands[0]


def annotate_file(src, fspec, relfile):
    """Returns (new_source, obligations) where obligations is a list of dicts
    {id, fn, props, kind}."""
    # pre-rewrites: plain regex substitutions on the raw source, applied before anything is located
    for b in fspec.blocks:
        if b.kind == "require":
            if not re.search(b.arg.strip()[1:-1], src):
                raise AnchorLost("%s: required text /%s/ not found" % (relfile, b.arg.strip()[1:-1]))
        if b.kind == "pre-replace":
            rx = re.compile(b.arg.strip()[1:-1])
            src = rx.sub(lambda m: m.expand("\n".join(_strip_blank(b.lines))), src)
        if b.kind == "pre-replace-code":
            # like pre-replace, but not inside `use ...;` items nor on `const` definitions
            rx = re.compile(b.arg.strip()[1:-1])
            out_lines, in_use = [], False
            for line in src.split("\n"):
                st = line.strip()
                if st.startswith("use ") or st.startswith("pub use "):
                    in_use = True
                if in_use or re.search(r"\bconst\b", st):
                    out_lines.append(line)
                else:
                    out_lines.append(rx.sub(lambda m: m.expand("\n".join(_strip_blank(b.lines))), line))
                if in_use and st.endswith(";"):
                    in_use = False
            src = "\n".join(out_lines)
    toks, fns = rustlex.index_functions(src)
    edits = []   # (pos, order, text)  insertions; replacements as (start, end, text)
    repls = []
    obligations = []
    fn_props = {}
    short = short_name(relfile)

    def ins(pos, text, order=0):
        edits.append((pos, order, text))

    def line_start(pos):
        return src.rfind("\n", 0, pos) + 1

    def line_end(pos):
        e = src.find("\n", pos)
        return len(src) if e < 0 else e

    for b in fspec.blocks:
        if b.kind == "file-replace":
            rx = re.compile(b.arg.strip().strip("/"))
            ms = list(rx.finditer(src))
            if len(ms) < 1:
                raise AnchorLost("%s: file-replace /%s/ matched %d times" % (relfile, rx.pattern, len(ms)))
            for m in ms:
                repls.append((m.start(), m.end(), m.expand("\n".join(_strip_blank(b.lines)))))

    def _one_fn(fs):
            f = _find_fn(fns, fs.path, relfile, fs.impl_sel)
            base = "%s::%s" % (short, "::".join(f.container + [f.name + fs.suffix]))
            fn_props[base] = fs.props
            item_s = toks[f.item_start].start
            item_e = toks[f.body_close].end if f.body_open is not None else toks[f.semi].end
            # @alias: the overlay of this function names a local variable of the source; if the source calls it
            # differently today (a rename), the overlay text (anchors and hints) is renamed accordingly
            if fs.aliases and not getattr(fs, "_aliased", False):
                body_ = src[item_s:item_e]
                for nm, rx_ in fs.aliases:
                    m_ = re.search(rx_, body_)
                    if not m_:
                        raise AnchorLost("%s: `%s`: alias /%s/ for `%s` not found" % (relfile, fs.path, rx_, nm))
                    actual = m_.group(1)
                    if actual != nm:
                        pat_ = re.compile(r"(?<![A-Za-z0-9_])" + re.escape(nm) + r"(?![A-Za-z0-9_])")
                        for b_ in fs.blocks:
                            b_.arg = pat_.sub(actual, b_.arg)
                            b_.lines = [pat_.sub(actual, l_) for l_ in b_.lines]
                        fs.split = [pat_.sub(actual, x_) for x_ in fs.split]
                fs._aliased = True
            for b in fs.blocks:
                lines = _strip_blank(b.lines)
                if b.kind == "attr":
                    ins(line_start(item_s), b.arg + "\n", order=-1)
                elif b.kind == "ret":
                    if f.arrow is None:
                        raise AnchorLost("%s: @ret on `%s` which has no return type" % (relfile, fs.path))
                    ins(toks[f.ret_start].start, "(%s: " % b.arg.strip())
                    ins(toks[f.ret_end].end, ")", order=-5)
                elif b.kind == "spec":
                    marked, ids = _mark_clauses(lines, base)
                    for i in ids:
                        obligations.append({"id": i, "fn": base, "props": fs.props})
                    anchor = toks[f.body_open].start if f.body_open is not None else toks[f.semi].start
                    ins(anchor, "\n" + "\n".join(marked) + "\n", order=1)
                elif b.kind == "loop":
                    n = int(b.arg.strip())
                    if n > len(f.loops):
                        raise AnchorLost("%s: `%s` has %d loops, contract refers to loop %d" % (relfile, fs.path, len(f.loops), n))
                    lp = f.loops[n - 1]
                    marked, ids = _mark_clauses(lines, "%s::loop%d" % (base, n))
                    for i in ids:
                        obligations.append({"id": i, "fn": base, "props": fs.props})
                    ins(toks[lp.open].start, "\n" + "\n".join(marked) + "\n")
                elif b.kind == "at":
                    arg = b.arg.strip()
                    text = "\n" + "\n".join(l + "   /*@V:%s::proof@%s*/" % (base, re.sub(r"[^A-Za-z0-9]+", "_", arg)) if l.strip() else l for l in lines) + "\n"
                    m = re.match(r"^loop (\d+) (start|end)$", arg)
                    m2 = re.match(r"^(?:after|before) loop (\d+)$", arg)
                    m3 = re.match(r"^(before|after) /(.*)/$", arg)
                    if arg == "entry":
                        ins(toks[f.body_open].end, text)
                    elif arg == "end":
                        last = toks[f.body_close - 1]
                        if f.arrow is None:
                            # unit function: make sure the last statement is terminated
                            semi = "" if last.text in (";", "}", "{") else ";"
                            ins(toks[f.body_close].start, semi + text)
                        else:
                            # value-returning function: { B }  ->  { let r_tail_ = { B }; proof.. r_tail_ }
                            ins(toks[f.body_open].end, "\n\tlet r_tail_ = {", order=5)
                            ins(toks[f.body_close].start, "};" + text + "\tr_tail_\n")
                    elif m or m2:
                        n = int((m or m2).group(1))
                        if n > len(f.loops):
                            raise AnchorLost("%s: `%s` has %d loops, proof block refers to loop %d" % (relfile, fs.path, len(f.loops), n))
                        lp = f.loops[n - 1]
                        if m and m.group(2) == "start":
                            ins(toks[lp.open].end, text)
                        elif m:
                            ins(toks[lp.close].start, text)
                        elif arg.startswith("before"):
                            ins(line_start(toks[lp.kw_tok].start), text.lstrip("\n"))
                        else:
                            ins(toks[lp.close].end, text, order=-1)
                    elif m3:
                        rx = re.compile(m3.group(2))
                        body = src[item_s:item_e]
                        ms = list(rx.finditer(body))
                        if len(ms) != 1:
                            raise AnchorLost("%s: `%s`: anchor /%s/ matched %d times" % (relfile, fs.path, rx.pattern, len(ms)))
                        pos = item_s + ms[0].start()
                        if m3.group(1) == "before":
                            ins(line_start(pos), text.lstrip("\n"))
                        else:
                            ins(line_end(item_s + ms[0].end()), text.rstrip("\n"))
                    else:
                        raise ValueError("bad @at argument: " + arg)
                elif b.kind == "closure":
                    optional = b.arg.strip().endswith("optional")
                    sel_ = b.arg.split()[0]
                    if sel_.startswith("/"):
                        # `@closure /re/ [as N]`: the closure whose text matches (independent of the order of the closures)
                        m_sel = re.match(r"^/(.*)/(?:\s+as\s+(\d+))?(?:\s+optional)?$", b.arg.strip())
                        rx_ = re.compile(m_sel.group(1))
                        hits = [i for i, c_ in enumerate(f.closures) if rx_.search(src[toks[c_.bar1].start:toks[c_.body_end].end])]
                        if not hits and optional:
                            continue
                        if len(hits) != 1:
                            raise AnchorLost("%s: `%s`: closure /%s/ matched %d closures" % (relfile, fs.path, rx_.pattern, len(hits)))
                        cl = f.closures[hits[0]]
                        n = int(m_sel.group(2)) if m_sel.group(2) else hits[0] + 1
                    else:
                        n = int(sel_)
                        if n > len(f.closures) and optional:
                            continue
                        if n > len(f.closures):
                            raise AnchorLost("%s: `%s` has %d closures, contract refers to closure %d" % (relfile, fs.path, len(f.closures), n))
                        cl = f.closures[n - 1]
                    # a renamed closure parameter: the typed header takes the name the body uses
                    ptoks = [toks[i_] for i_ in range(cl.bar1 + 1, cl.bar2)]
                    if len(ptoks) == 1 and re.match(r"^[A-Za-z_]\w*$", src[ptoks[0].start:ptoks[0].end]):
                        actual = src[ptoks[0].start:ptoks[0].end]
                        m_h = re.search(r"\|\s*([A-Za-z_]\w*)\s*:", "\n".join(lines))
                        if m_h and m_h.group(1) != actual:
                            lines = [re.sub(r"\b%s\b" % re.escape(m_h.group(1)), actual, l_) for l_ in lines]
                    marked, ids = _mark_clauses(lines, "%s::closure%d" % (base, n))
                    for i in ids:
                        obligations.append({"id": i, "fn": base, "props": fs.props})
                    repls.append((toks[cl.bar1].start, toks[cl.bar2].end, "\n".join(marked) + "\n{ "))
                    ins(toks[cl.body_end].end, " }", order=-9)
                elif b.kind == "replace":
                    arg_ = b.arg.strip()
                    opt_ = arg_.startswith("optional ")
                    if opt_:
                        arg_ = arg_[9:].strip()
                    rx = re.compile(arg_[1:-1])
                    body = src[item_s:item_e]
                    ms = list(rx.finditer(body))
                    if opt_ and not ms:
                        continue
                    if len(ms) != 1:
                        raise AnchorLost("%s: `%s`: rewrite /%s/ matched %d times" % (relfile, fs.path, rx.pattern, len(ms)))
                    repls.append((item_s + ms[0].start(), item_s + ms[0].end(), ms[0].expand("\n".join(lines))))
                elif b.kind == "desugar-for":
                    # R6: `for PAT in ITER { BODY }` over a value that already is an Iterator (into_iter is
                    # the identity) -> `{ let mut it = ITER; loop { match it.next() { None => break, Some(PAT) => { BODY } } } }`
                    # with `enumerate`: ITER.enumerate() is replaced by an explicit counter.
                    parts_ = b.arg.split()
                    n = int(parts_[0])
                    enum = len(parts_) > 1 and parts_[1] == "enumerate"
                    if n > len(f.loops) or f.loops[n - 1].kw != "for":
                        raise AnchorLost("%s: `%s`: loop %d is not a `for` loop" % (relfile, fs.path, n))
                    lp = f.loops[n - 1]
                    k_in = None
                    q = lp.kw_tok + 1
                    while q < lp.open:
                        if toks[q].kind == "p" and toks[q].text in "([{":
                            q = toks[q].match + 1
                            continue
                        if toks[q].kind == "id" and toks[q].text == "in":
                            k_in = q
                            break
                        q += 1
                    if k_in is None:
                        raise AnchorLost("%s: `%s`: malformed for loop %d" % (relfile, fs.path, n))
                    pat = src[toks[lp.kw_tok + 1].start:toks[k_in - 1].end]
                    expr = src[toks[k_in + 1].start:toks[lp.open - 1].end]
                    # block lines starting with `init:` run right after the iterator is created, the others at `None`
                    init_hook = " ".join(l.strip()[5:] for l in lines if l.strip().startswith("init:"))
                    lines = [l for l in lines if not l.strip().startswith("init:")]
                    if enum:
                        m_ = re.match(r"^\(\s*(\w+)\s*,\s*(\w+)\s*\)$", pat)
                        if not m_ or not expr.rstrip().endswith(".enumerate()"):
                            raise AnchorLost("%s: `%s`: loop %d is not `for (i, x) in e.enumerate()`" % (relfile, fs.path, n))
                        ivar, pat = m_.group(1), m_.group(2)
                        expr = expr.rstrip()[:-len(".enumerate()")]
                        repls.append((toks[lp.kw_tok].start, toks[lp.open].start, "{ let mut it_%d = %s; let mut cnt_%d: usize = 0; %s loop " % (n, expr, n, init_hook)))
                        hook = "\n".join(lines)
                        ins(toks[lp.open].start, "{ let ghost old_it_%d = it_%d; match it_%d.next() { None => { %s break; }, Some(%s) => { let %s = cnt_%d; cnt_%d = cnt_%d + 1; " % (n, n, n, hook, pat, ivar, n, n, n), order=3)
                        ins(toks[lp.close].end, " } } } }", order=-3)
                    else:
                        repls.append((toks[lp.kw_tok].start, toks[lp.open].start, "{ let mut it_%d = %s; %s loop " % (n, expr, init_hook)))
                        hook = "\n".join(lines)
                        ins(toks[lp.open].start, "{ let ghost old_it_%d = it_%d; match it_%d.next() { None => { %s break; }, Some(%s) => " % (n, n, n, hook, pat), order=3)
                        ins(toks[lp.close].end, " } } }", order=-3)
                elif b.kind == "match-consts":
                    # R15 (structural): `match SCRUT { CURRENT_SEGMENT => A, PARENT_SEGMENT => B, _ => C }` where
                    # the patterns are the external byte-string consts "." and ".." -> if/else chain on the bytes
                    rx = re.compile(b.arg.strip()[1:-1])
                    found = False
                    for q in range(f.body_open, f.body_close):
                        if toks[q].kind == "id" and toks[q].text == "match":
                            r = q + 1
                            while not (toks[r].kind == "p" and toks[r].text == "{"):
                                if toks[r].kind == "p" and toks[r].text in "([":
                                    r = toks[r].match
                                r += 1
                            scrut = src[toks[q + 1].start:toks[r - 1].end]
                            if not rx.search(scrut):
                                continue
                            found = True
                            mo, mc = r, toks[r].match
                            conds = {"CURRENT_SEGMENT": "sb_.len() == 1 && sb_[0] == b'.'",
                                     "PARENT_SEGMENT": "sb_.len() == 2 && sb_[0] == b'.' && sb_[1] == b'.'"}
                            repls.append((toks[q].start, toks[mo].end, "{ let sb_ = %s; " % scrut))
                            a = mo + 1
                            first = True
                            while a < mc:
                                e = a
                                while toks[e].text != "=>":
                                    e += 1
                                pat = src[toks[a].start:toks[e - 1].end].strip()
                                if pat == "_":
                                    head = "" if first else " else "
                                elif pat in conds:
                                    head = ("if " if first else " else if ") + conds[pat] + " "
                                else:
                                    raise AnchorLost("%s: `%s`: match arm pattern `%s` is not one of the segment consts" % (relfile, fs.path, pat))
                                repls.append((toks[a].start, toks[e].end, head))
                                first = False
                                bs = e + 1
                                if toks[bs].text == "{":
                                    nxt = toks[bs].match + 1
                                else:
                                    be = bs
                                    while True:
                                        tt = toks[be]
                                        if tt.kind == "p" and tt.text in "([{":
                                            be = tt.match + 1
                                            continue
                                        if (tt.kind == "p" and tt.text == ",") or be >= mc:
                                            break
                                        be += 1
                                    ins(toks[bs].start, "{ ", order=7)
                                    ins(toks[be - 1].end, " }", order=-7)
                                    nxt = be
                                if nxt < mc and toks[nxt].text == ",":
                                    repls.append((toks[nxt].start, toks[nxt].end, ""))
                                    nxt += 1
                                a = nxt
                            break
                    if not found:
                        raise AnchorLost("%s: `%s`: no `match` on /%s/" % (relfile, fs.path, rx.pattern))
                elif b.kind == "spec-impl":
                    pass
                elif b.kind == "eq-method":
                    # R22 (general form): `A == B` -> `(A).eq(&(B))`, the method call the operator stands for (Verus reads
                    # `==` on opaque external types as structural equality; the method has a contract). Operands are
                    # found on the token level. `except /re/`: comparisons whose operand text matches are left alone
                    # (bool / integer comparisons, which Verus understands natively).
                    # `refs`: both operands are references (&T == &T goes through std's forwarding impl for references to
                    # T::eq): `(A).eq(B)`
                    refs_ = b.arg.strip().startswith("refs")
                    ex_ = re.search(r"except /(.*)/$", b.arg.strip())
                    ex_rx = re.compile(ex_.group(1)) if ex_ else None
                    stop_l = {"{", "(", "[", ";", ",", "&&", "||", "=", "=>", "|", "return", "if", "while", "else", "match"}
                    stop_r = {"&&", "||", ";", ",", ")", "]", "}", "{", "=>"}
                    n_done = 0
                    for q in range(f.body_open + 1, f.body_close):
                        if not (toks[q].kind == "p" and toks[q].text == "=="):
                            continue
                        l = q - 1
                        while l > f.body_open:
                            t_ = toks[l]
                            if t_.kind == "p" and t_.text in ")]}":
                                l = t_.match - 1
                                continue
                            if t_.text in stop_l and t_.kind in ("p", "id"):
                                break
                            l -= 1
                        r = q + 1
                        while r < f.body_close:
                            t_ = toks[r]
                            if t_.kind == "p" and t_.text in "([":
                                r = t_.match + 1
                                continue
                            if t_.kind == "p" and t_.text in stop_r:
                                break
                            r += 1
                        a_s, a_e = toks[l + 1].start, toks[q - 1].end
                        b_s, b_e = toks[q + 1].start, toks[r - 1].end
                        if ex_rx and (ex_rx.search(src[a_s:a_e]) or ex_rx.search(src[b_s:b_e])):
                            continue
                        ins(a_s, "(", order=8)
                        repls.append((toks[q].start, toks[q].end, ").eq((" if refs_ else ").eq(&("))
                        ins(b_e, "))", order=-8)
                        n_done += 1
                    if not n_done and "optional" not in b.arg:
                        raise AnchorLost("%s: `%s`: no `==` comparison found for rewrite R22" % (relfile, fs.path))
                elif b.kind == "replace-all":
                    rx = re.compile(b.arg.strip()[1:-1])
                    body = src[item_s:item_e]
                    for m0 in rx.finditer(body):
                        repls.append((item_s + m0.start(), item_s + m0.end(), m0.expand("\n".join(lines))))
                elif b.kind == "bvl":
                    # R2
                    done = 0
                    for lp in f.loops:
                        if lp.kw != "loop":
                            continue
                        k = None
                        # token index of the `loop` keyword
                        for q in range(lp.open - 1, f.body_open, -1):
                            if toks[q].kind == "id" and toks[q].text == "loop":
                                k = q
                                break
                        if k is None or toks[k - 1].text != "=" or toks[k - 3].text != "let":
                            continue
                        var = toks[k - 2].text
                        repls.append((toks[k - 1].start, toks[k - 1].end, ";"))
                        inner = [l2 for l2 in f.loops if l2 is not lp and lp.open < l2.open < lp.close]
                        q = lp.open + 1
                        while q < lp.close:
                            if any(l2.open < q < l2.close for l2 in inner):
                                q += 1
                                continue
                            t = toks[q]
                            if t.kind == "id" and t.text == "break" and toks[q + 1].text not in (";", ",", "}"):
                                e = q + 1
                                while True:
                                    tt = toks[e]
                                    if tt.kind == "p" and tt.text in "([{":
                                        e = tt.match + 1
                                        continue
                                    if tt.kind == "p" and tt.text in (",", ";", "}"):
                                        break
                                    e += 1
                                expr = src[toks[q + 1].start:toks[e - 1].end]
                                repls.append((t.start, toks[e - 1].end, "{ %s = (%s); break; }" % (var, expr)))
                                q = e
                                continue
                            q += 1
                        done += 1
                    if not done:
                        raise AnchorLost("%s: `%s`: no `let x = loop {` found for rewrite R2" % (relfile, fs.path))


    lost = []
    for fs in fspec.fns:
        saved = (list(edits), list(repls), list(obligations), dict(fn_props))
        try:
            _one_fn(fs)
        except AnchorLost as e:
            edits[:] = saved[0]; repls[:] = saved[1]; obligations[:] = saved[2]
            fn_props.clear(); fn_props.update(saved[3])
            lost.append({'fn': '%s::%s' % (short, fs.path), 'props': fs.props, 'why': str(e), 'twin': fs.twin is not None or fs.drop_body})
            fs.twin = None; fs.drop_body = False

    top = "\n".join(l for b in fspec.blocks if b.kind == "top" for l in b.lines)
    bottom = "\n".join(l for b in fspec.blocks if b.kind == "bottom" for l in b.lines)
    for b in fspec.blocks:
        if b.kind == "derived":
            try:
                bottom += "\n" + derived_spec(src, b.arg, relfile)
            except AnchorLost as e:
                a_ = b.arg.split()
                lost.append({'fn': '%s::%s(derive %s)' % (short, a_[0], a_[1]), 'props': a_[2:], 'why': str(e), 'twin': False})

    # apply
    ops = [(p, p, o, t) for (p, o, t) in edits] + [(s, e, 0, t) for (s, e, t) in repls]
    # sort by start descending; for equal positions larger order is applied first so that it ends up later in text
    ops.sort(key=lambda x: (x[0], x[2]), reverse=True)
    out = src
    last = len(src) + 1
    for s, e, o, t in ops:
        if e > last:
            raise AnchorLost("%s: overlapping edits near offset %d" % (relfile, s))
        out = out[:s] + t + out[e:]
        last = s if e > s else last
    twins = [fs for fs in fspec.fns if fs.twin is not None or fs.drop_body]
    if twins:
        toks2, fns2 = rustlex.index_functions(out)
        twin_texts = []
        drops = []
        for fs in twins:
            f2 = _find_fn(fns2, fs.path, relfile, fs.impl_sel)
            if fs.twin is not None:
                tw = make_twin(out, toks2, f2, fs)
                if fs.split:
                    # case split: one variant per marked branch; in variant k every OTHER marked branch starts
                    # with assume(false) (it is verified in its own variant), so each Verus query covers
                    # the common code + one branch. Unmarked code is verified in every variant.
                    name = "twin_" + "_".join(f2.container + [f2.name]) + fs.suffix
                    poss = []
                    for rx in fs.split:
                        ms = list(re.finditer(rx, tw))
                        if len(ms) != 1:
                            raise AnchorLost("%s: `%s`: branch marker /%s/ matched %d times" % (relfile, fs.path, rx, len(ms)))
                        poss.append(ms[0].end())
                    for k in range(len(poss)):
                        v = tw
                        for j in sorted(range(len(poss)), key=lambda j: -poss[j]):
                            if j != k:
                                v = v[:poss[j]] + " assume(false); /*case-split: verified in variant %d*/ " % (j + 1) + v[poss[j]:]
                        v = v.replace("fn " + name + "<", "fn " + name + "_case%d<" % (k + 1), 1)
                        twin_texts.append(v)
                else:
                    twin_texts.append(tw)
                si_ = [b for b in fs.blocks if b.kind == "spec-impl"]
                if not fspec.wrap and si_:
                    # comparison method of a facade type: its contract is given to Verus as the spec function of vstd's
                    # PartialEqSpec / PartialOrdSpec / OrdSpec extension traits, so that `==`, `<`, `.cmp()` on the type -
                    # also inside Option<&T> and through references - mean that spec function; the twin proves
                    # `result == self.<spec fn>(other)` for the method's body
                    twin_texts.append(_spec_impl(si_[0], f2, fs))
                elif not fspec.wrap:
                    # facade method: other twins may call it; its contract (proved on the twin, same body) is
                    # attached to the method itself as an assumed specification
                    tt, tf = rustlex.index_functions(tw)
                    tfn = [x for x in tf if x.name.startswith("twin_")][0]
                    head = tw[tt[tfn.fn_tok].start:tt[tfn.body_open].start].rstrip()
                    if head.endswith(","):
                        head = head[:-1]
                    tname = "twin_" + "_".join(f2.container + [f2.name]) + fs.suffix
                    target = "crate::" + _module_path(relfile) + "::" + "::".join(f2.container + [f2.name])
                    if getattr(f2, "trait_full", None):
                        # method of a trait impl: `<Type as Trait<Args>>::method` (trait and arguments as written in
                        # the impl header; they resolve in the file's own scope, where this text is appended)
                        target = "<crate::%s::%s as %s>::%s" % (_module_path(relfile), "::".join(f2.container), f2.trait_full, f2.name)
                    gen_end = head.index("(")
                    gens = head[len("fn " + tname):gen_end].strip()
                    gens = "" if gens == "<>" else gens
                    head2 = "pub assume_specification%s [%s] %s" % (gens, target, head[gen_end:])
                    head2 = re.sub(r"/\*@V:[^*]*\*/", "", head2)
                    if getattr(f2, "trait_full", None):
                        head2 = _requires_to_implication(head2)
                    twin_texts.append("// contract of the facade method = contract proved on its twin\n" + head2 + ";")
            if fs.drop_body:
                drops.append((toks2[f2.body_open].start, toks2[f2.body_close].end))
        for a, b in sorted(drops, reverse=True):
            out = out[:a] + "{ unimplemented!() }" + out[b:]
        if not fspec.wrap:
            # facade file (not inside verus!): the contracts and rewrites live ONLY in the twins; the file's own
            # text stays exactly as it is in the repository
            out = src
        bottom = bottom + "\n" + "\n".join(twin_texts)
    if fspec.wrap and fspec.wrap_from:
        ms = list(re.finditer(fspec.wrap_from, out, re.M))
        if len(ms) != 1:
            raise AnchorLost("%s: wrap-from /%s/ matched %d times" % (relfile, fspec.wrap_from, len(ms)))
        k = out.rfind("\n", 0, ms[0].start()) + 1
        out = "#[allow(unused_imports)] use vstd::prelude::*;\n" + out[:k] + "verus! {\n" + top + "\n" + out[k:] + "\n" + bottom + "\n} // verus!\n"
    elif fspec.wrap:
        out = "#[allow(unused_imports)] use vstd::prelude::*;\nverus! {\n" + top + "\n" + out + "\n" + bottom + "\n} // verus!\n"
    elif top or bottom:
        out = out + "\n#[allow(unused_imports)] use vstd::prelude::*;\nverus! {\n" + top + "\n" + bottom + "\n} // verus!\n"
    if fspec.wrap:
        out = _bytestr_to_array(out, r"^verus! \{")
    return out, obligations, fn_props, lost


def _spec_impl(b, f, fs):
    kind = b.arg.strip()
    body = "\n".join(_strip_blank(b.lines))
    tf = f.trait_full or ""
    m = re.search(r"<(.*)>\s*$", tf)
    rhs = m.group(1).strip() if m else None
    ty = f.container[-1]
    gens = ("<%s>" % fs.twin) if fs.twin else ""
    targ = ("<%s>" % rhs) if rhs else ""
    other_ty = rhs if rhs else ty
    hdr = "// contract of the facade method (proved on its twin), as the spec function Verus uses for the operator\n"
    if kind == "eq":
        return hdr + ("impl%s vstd::std_specs::cmp::PartialEqSpecImpl%s for %s {\n    open spec fn obeys_eq_spec() -> bool { true }\n"
                      "    open spec fn eq_spec(&self, other: &%s) -> bool {\n%s\n    }\n}\n") % (gens, targ, ty, other_ty, body)
    if kind == "partial_cmp":
        return hdr + ("impl%s vstd::std_specs::cmp::PartialOrdSpecImpl%s for %s {\n    open spec fn obeys_partial_cmp_spec() -> bool { true }\n"
                      "    open spec fn partial_cmp_spec(&self, other: &%s) -> Option<std::cmp::Ordering> {\n%s\n    }\n}\n") % (gens, targ, ty, other_ty, body)
    if kind == "cmp":
        return hdr + ("impl%s vstd::std_specs::cmp::OrdSpecImpl for %s {\n    open spec fn obeys_cmp_spec() -> bool { true }\n"
                      "    open spec fn cmp_spec(&self, other: &%s) -> std::cmp::Ordering {\n%s\n    }\n}\n") % (gens, ty, other_ty, body)
    raise ValueError("@spec-impl: unknown kind " + kind)


def _split_top(text):
    """split at commas of bracket depth 0"""
    out, depth, cur = [], 0, ""
    for ch in text:
        if ch in "([{":
            depth += 1
        elif ch in ")]}":
            depth -= 1
        if ch == "," and depth == 0:
            out.append(cur); cur = ""
        else:
            cur += ch
    if cur.strip():
        out.append(cur)
    return [x.strip() for x in out if x.strip()]


def _requires_to_implication(head):
    """a trait-impl method cannot carry `requires`: `requires P.. ensures E..` becomes `ensures (P..) ==> E..`
    (the twin, a free function, is proved under `requires P`)"""
    m = re.search(r"\brequires\b(.*?)\bensures\b(.*)$", head, re.S)
    if not m:
        return head
    pre = _split_top(m.group(1))
    post = _split_top(m.group(2))
    cond = " && ".join("(%s)" % x for x in pre)
    return head[:m.start()] + "ensures\n" + ",\n".join("    (%s) ==> (%s)" % (cond, e) for e in post)


_DERIVE_TRAIT = {"eq": "PartialEq", "cmp": "Ord", "hash": "Hash"}


def derived_spec(src, arg, relfile):
    """`@derived Struct eq|cmp|hash <props>`: the ASSUMED meaning of a derive on a struct of (optional) references to
    component values, generated from the struct's CURRENT definition: PartialEq = field-wise conjunction, Ord =
    lexicographic in field order (None < Some), Hash = the fields' feeds in order (an Option feeds its discriminant
    first). The per-type relations eqv_T / ordv_T / hfeed_T are those of contracts/13_eq.rs; each component type's own
    hand-written impl is proved against the same relation on its twin."""
    a_ = arg.split()
    name, what = a_[0], a_[1]
    m = re.search(r"#\[derive\(([^)]*)\)\]\s*pub struct %s\s*<'a>\s*\{([^}]*)\}" % re.escape(name), src)
    if not m:
        raise AnchorLost("%s: struct %s with a derive attribute not found" % (relfile, name))
    derives = [x.strip() for x in m.group(1).split(",")]
    if _DERIVE_TRAIT[what] not in derives:
        raise AnchorLost("%s: struct %s does not derive %s any more" % (relfile, name, _DERIVE_TRAIT[what]))
    fields = []
    for line in m.group(2).split("\n"):
        line = re.sub(r"//.*$", "", line).strip()
        if not line:
            continue
        fm = re.match(r"^pub\s+(\w+)\s*:\s*(Option\s*<\s*&'a\s+(\w+)\s*>|&'a\s+(\w+))\s*,?$", line)
        if not fm:
            raise AnchorLost("%s: struct %s: field `%s` is not an (optional) reference to a component" % (relfile, name, line))
        fields.append((fm.group(1), fm.group(3) or fm.group(4), fm.group(3) is not None))
    ty = "%s<'a>" % name
    if what == "eq":
        terms = [("oeqv_%s(opt_text(self.%s), opt_text(other.%s))" if opt else "eqv_%s(bytes_of(self.%s), bytes_of(other.%s))") % (t, f, f) for f, t, opt in fields]
        return ("// derive(PartialEq) on %s: field-wise conjunction. ASSUMED (meaning of the derive), generated from the struct's field list\n"
                "impl<'a> vstd::std_specs::cmp::PartialEqSpecImpl for %s {\n    open spec fn obeys_eq_spec() -> bool { true }\n"
                "    open spec fn eq_spec(&self, other: &%s) -> bool { %s }\n}\n") % (name, ty, ty, " && ".join(terms))
    if what == "cmp":
        expr = "std::cmp::Ordering::Equal"
        for f, t, opt in reversed(fields):
            term = ("oordv_%s(opt_text(self.%s), opt_text(other.%s))" if opt else "ordv_%s(bytes_of(self.%s), bytes_of(other.%s))") % (t, f, f)
            expr = "ord_then(%s, %s)" % (term, expr)
        return ("// derive(PartialOrd, Ord) on %s: lexicographic in field order. ASSUMED (meaning of the derive), generated from the struct's field list\n"
                "impl<'a> vstd::std_specs::cmp::PartialOrdSpecImpl for %s {\n    open spec fn obeys_partial_cmp_spec() -> bool { true }\n"
                "    open spec fn partial_cmp_spec(&self, other: &%s) -> Option<std::cmp::Ordering> { Some(%s) }\n}\n"
                "impl<'a> vstd::std_specs::cmp::OrdSpecImpl for %s {\n    open spec fn obeys_cmp_spec() -> bool { true }\n"
                "    open spec fn cmp_spec(&self, other: &%s) -> std::cmp::Ordering { %s }\n}\n") % (name, ty, ty, expr, ty, ty, expr)
    if what == "hash":
        terms = [("ohfeed_%s(opt_text(a.%s))" if opt else "hfeed_%s(bytes_of(a.%s))") % (t, f) for f, t, opt in fields]
        return ("// derive(Hash) on %s: the fields' feeds in order. ASSUMED (meaning of the derive), generated from the struct's field list\n"
                "pub assume_specification<'a, H: std::hash::Hasher> [<%s as std::hash::Hash>::hash::<H>] (a: &%s, state: &mut H)\n    ensures hfed(final(state)) == hfed(old(state)) + %s;\n") % (name, ty, ty, " + ".join(terms))
    raise ValueError("@derived: unknown kind " + what)


def _bytestr_to_array(text, wrap_from):
    """R11: byte-string literals b"xy" -> &[120u8, 121] inside the verified region (Verus knows the
    length but not the contents of a byte-string literal; an array literal is the same value)."""
    import ast
    start = 0
    if wrap_from:
        m = re.search(wrap_from, text, re.M)
        start = m.start() if m else 0
    toks = rustlex.lex(text)
    out = text
    for t in reversed(toks):
        if t.kind == "lit" and t.text.startswith('b"') and t.start >= start:
            bs = ast.literal_eval(t.text)
            if len(bs) == 0:
                rep = "&[0u8; 0]"
            else:
                rep = "&[" + ", ".join(("%du8" % b) if i == 0 else str(b) for i, b in enumerate(bs)) + "]"
            out = out[:t.start] + rep + out[t.end:]
    return out


def short_name(relfile):
    """obligation-id prefix of a file: basename, qualified by the family for facade files (uri/.., iri/..) whose
    basenames collide (uri/authority/host.rs vs iri/authority/host.rs)"""
    r = relfile.split("crates/core/src/")[-1]
    if r.startswith(("uri/", "iri/")) and os.path.basename(r) not in ("mod.rs", "reference.rs"):
        return r.replace("/", ".")
    return os.path.basename(r)


def _module_path(relfile):
    p_ = relfile.split("crates/core/src/")[1][:-3]
    parts_ = p_.split("/")
    if parts_[-1] == "mod":
        parts_ = parts_[:-1]
    return "::".join(parts_)


def make_twin(text, toks, f, fs):
    """Free-function twin of a trait default method: same body, `self` -> `self_`, `Self` -> `S_`.
    Verus rejects default methods that call generic functions bounded by their own trait (trait
    cycle check); the method itself is therefore given its contract as an assumption
    (external_body) and the SAME contract is proved on this twin, generated from the current text."""
    name = "twin_" + "_".join(f.container + [f.name]) + getattr(fs, "suffix", "")
    # own generics
    k = f.fn_tok + 2
    own = ""
    if toks[k].text == "<":
        e = rustlex._skip_generics(toks, k)
        own = text[toks[k].end:toks[e - 1].start].strip()
    generics = ", ".join(x for x in (own, fs.twin) if x)
    def sub_tokens(a_tok, b_tok):
        """text of tokens a..b (inclusive) with self/Self substituted, keeping original spacing/comments"""
        if a_tok > b_tok:
            return ""
        out = []
        pos = toks[a_tok].start
        for q in range(a_tok, b_tok + 1):
            t = toks[q]
            out.append(text[pos:t.start])
            if t.kind == "id" and t.text == "self":
                out.append("self_")
            elif t.kind == "id" and t.text == "Self":
                out.append("S_")
            else:
                out.append(t.text)
            pos = t.end
        return "".join(out)
    # receiver
    ps, pe = f.params_open + 1, f.params_close - 1
    q = ps
    depth = 0
    while q <= pe and not (toks[q].text == "," and depth == 0):
        if toks[q].text in "([{<":
            depth += 1
        elif toks[q].text in ")]}>":
            depth -= 1
        q += 1
    recv = [t.text for t in toks[ps:q]]
    rest = sub_tokens(q + 1, pe) if q < pe else ""
    if recv == ["&", "self"]:
        r = "self_: &S_"
    elif recv == ["&", "mut", "self"]:
        r = "self_: &mut S_"
    elif recv == ["self"]:
        r = "self_: S_"
    elif recv == ["mut", "self"]:
        r = "mut self_: S_"
    elif "self" not in recv:
        # associated function without receiver: parameters are kept as they are
        r = None
        rest = sub_tokens(ps, pe) if ps <= pe else ""
    else:
        raise AnchorLost("twin of %s: unsupported receiver %r" % (fs.path, recv))
    params = (r + (", " + rest if rest.strip() else "")) if r is not None else rest
    tail = text[toks[f.params_close].end:toks[f.params_close + 1].start] + sub_tokens(f.params_close + 1, f.body_close)
    unsafe = "unsafe " if any(toks[q].text == "unsafe" for q in range(f.item_start, f.fn_tok)) else ""
    # keep the item's attributes (loop_isolation, ...) except external_body
    attrs = []
    q = f.item_start
    while q < f.fn_tok:
        if toks[q].text == "#" and toks[q + 1].text == "[":
            a = text[toks[q].start:toks[toks[q + 1].match].end]
            if "external_body" not in a and "inline" not in a:
                attrs.append(a)
            q = toks[q + 1].match + 1
        else:
            q += 1
    tw = "%s\npub %sfn %s<%s>(%s)%s" % ("\n".join(attrs), unsafe, name, generics, params, tail)
    for a, b in fs.twin_subst:
        tw = re.sub(r"(?<![A-Za-z0-9_])" + re.escape(a) + r"(?![A-Za-z0-9_])", lambda m: b, tw)
    # a trait-impl method cannot carry `requires`; its twin can (the method's assumed contract is
    # conditional on the same predicate)
    tw = re.sub(r"/\*TWIN-REQUIRES:(.*?)\*/", lambda m: "requires " + m.group(1).strip() + ",", tw)
    return tw


def build_line_map(text):
    """line number (1-based) -> obligation id, from the marker comments."""
    m = {}
    for i, line in enumerate(text.split("\n"), 1):
        k = line.rfind("/*@V:")
        if k >= 0:
            m[i] = line[k + 5:line.index("*/", k)]
    return m


def fn_line_ranges(text):
    toks, fns = rustlex.index_functions(text)
    offs = [0]
    for line in text.split("\n"):
        offs.append(offs[-1] + len(line) + 1)
    import bisect
    def ln(pos):
        return bisect.bisect_right(offs, pos)
    out = []
    for f in fns:
        s = toks[f.item_start].start
        e = toks[f.body_close].end if f.body_open is not None else toks[f.semi].end
        out.append((ln(s), ln(e), "::".join(f.container + [f.name])))
    return out


def annotate_tree(scratch, contracts_dir, only=None):
    """Annotate every file named in contracts_dir/*.vspec inside `scratch`.
    Returns metadata: {files: {rel: {linemap, fnranges}}, obligations: [...], fn_props: {...}}"""
    meta = {"files": {}, "obligations": [], "fn_props": {}}
    specs = {}
    for name in sorted(os.listdir(contracts_dir)):
        if not name.endswith(".vspec"):
            continue
        if only and name not in only:
            continue
        with open(os.path.join(contracts_dir, name)) as fh:
            for fs in parse_vspec(fh.read(), name):
                if fs.path in specs:
                    # merge
                    a = specs[fs.path]
                    a.wrap = a.wrap or fs.wrap
                    a.blocks += fs.blocks
                    a.fns += fs.fns
                else:
                    specs[fs.path] = fs
    for rel, fs in specs.items():
        p = os.path.join(scratch, rel)
        if not os.path.exists(p):
            raise AnchorLost("%s: file not found" % rel)
        with open(p) as fh:
            src = fh.read()
        out, obl, fn_props, lost = annotate_file(src, fs, rel)
        meta.setdefault("lost", []).extend(lost)
        with open(p, "w") as fh:
            fh.write(out)
        meta["files"][rel] = {"linemap": build_line_map(out), "fnranges": fn_line_ranges(out)}
        meta["obligations"] += obl
        meta["fn_props"].update(fn_props)
    return meta


if __name__ == "__main__":
    scratch, cdir = sys.argv[1], sys.argv[2]
    try:
        meta = annotate_tree(scratch, cdir)
    except AnchorLost as e:
        print("ANCHOR-LOST:", e)
        sys.exit(2)
    print(json.dumps({"obligations": len(meta["obligations"]), "files": list(meta["files"])}))
