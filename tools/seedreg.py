#!/usr/bin/env python3
"""seedreg.py <src dir> <seed id> <prop> [<prop>...] : confirm with seedtest.py and store under /verif/seeded/<seed id>/"""
import os, sys, json, shutil, subprocess
_VERIF = os.path.dirname(os.path.dirname(os.path.abspath(__file__)))   # the tree this script belongs to (a vp-run snapshot runs ITS OWN checks)
src, sid, props = sys.argv[1], sys.argv[2], sys.argv[3:]
r = subprocess.run([sys.executable, os.path.join(_VERIF, "tools", "seedtest.py"), src] + props, stdout=subprocess.PIPE, text=True)
res = json.loads(r.stdout[r.stdout.index("{"):])
ok = res.get("patch_applies") and res.get("demo_clean") == "ok" and res.get("demo_mut") == "FAILED" and res.get("suite_with_patch") == "ok"
print(sid, "confirmed" if ok else "NOT CONFIRMED", {k: v["exit"] for k, v in res.items() if k.startswith("check_")})
if not ok:
    print(json.dumps(res, indent=1)); sys.exit(1)
dst = os.path.join(_VERIF, "seeded", sid)
os.makedirs(dst, exist_ok=True)
shutil.copy(os.path.join(src, "patch.diff"), dst)
shutil.copy(os.path.join(src, "demo.rs"), dst)
notes = open(os.path.join(src, "notes.txt")).read() if os.path.exists(os.path.join(src, "notes.txt")) else ""
meta = {"breaks_property": props[0], "needs_to_manifest": notes[:1500],
        "confirmed_by": "tools/seedtest.py: demo passes on the clean tree, fails with the patch; `cargo test --workspace --offline` passes with the patch",
        "checks_run": {k[6:]: v for k, v in res.items() if k.startswith("check_")},
        "detected": {k[6:]: v["exit"] == 1 for k, v in res.items() if k.startswith("check_")}}
json.dump(meta, open(os.path.join(dst, "meta.json"), "w"), indent=1)
