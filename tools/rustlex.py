"""Minimal Rust lexer + structural index (functions, loops, closures) used by annotate.py.

It does not parse Rust; it tokenises (comments, strings, chars, lifetimes, idents,
punctuation) and matches brackets, which is enough to find
  * every `fn NAME` together with its container (impl self type / trait / mod names),
  * its signature span, return type span, body span,
  * every `while` / `loop` / `for` loop inside a body, in source order, with the
    position of the `{` that opens the loop body and of the matching `}`,
  * every closure `|..| body` inside a body, in source order.
Anchoring by function name and loop/closure ordinal (not by line text) is what lets a
contract stay attached when the body of the function is edited.
"""
import re

class Tok:
    __slots__ = ("kind", "text", "start", "end", "match")
    def __init__(self, kind, text, start, end):
        self.kind, self.text, self.start, self.end = kind, text, start, end
        self.match = -1
    def __repr__(self):
        return "Tok(%s,%r,%d)" % (self.kind, self.text, self.start)

_ident = re.compile(r"[A-Za-z_][A-Za-z0-9_]*")
_num = re.compile(r"[0-9][0-9A-Za-z_]*(\.[0-9][0-9A-Za-z_]*)?")

def lex(src):
    toks = []
    i, n = 0, len(src)
    while i < n:
        c = src[i]
        if c.isspace():
            i += 1
            continue
        if src.startswith("//", i):
            j = src.find("\n", i)
            j = n if j < 0 else j
            i = j
            continue
        if src.startswith("/*", i):
            depth, j = 1, i + 2
            while j < n and depth:
                if src.startswith("/*", j):
                    depth += 1; j += 2
                elif src.startswith("*/", j):
                    depth -= 1; j += 2
                else:
                    j += 1
            i = j
            continue
        # raw strings / byte strings
        m = re.match(r"b?r(#*)\"", src[i:i + 20])
        if m:
            hashes = m.group(1)
            j = src.find('"' + hashes, i + len(m.group(0)))
            j = n if j < 0 else j + 1 + len(hashes)
            toks.append(Tok("lit", src[i:j], i, j)); i = j
            continue
        if c == '"' or (c == 'b' and i + 1 < n and src[i + 1] == '"'):
            j = i + (2 if c == 'b' else 1)
            while j < n and src[j] != '"':
                j += 2 if src[j] == '\\' else 1
            j += 1
            toks.append(Tok("lit", src[i:j], i, j)); i = j
            continue
        if c == "'" or (c == 'b' and i + 1 < n and src[i + 1] == "'"):
            k = i + (1 if c == 'b' else 0)
            # char literal or lifetime
            if src[k + 1] == '\\':
                j = k + 2
                while j < n and src[j] != "'":
                    j += 1
                j += 1
                toks.append(Tok("lit", src[i:j], i, j)); i = j
                continue
            if k + 2 < n and src[k + 2] == "'":
                j = k + 3
                toks.append(Tok("lit", src[i:j], i, j)); i = j
                continue
            # multi-byte char literal like 'é'
            m2 = re.match(r"'[^'\\\n]'", src[k:k + 8])
            if m2 and not _ident.match(src, k + 1):
                j = k + len(m2.group(0))
                toks.append(Tok("lit", src[i:j], i, j)); i = j
                continue
            m3 = _ident.match(src, k + 1)
            if m3 and c == "'":
                j = m3.end()
                toks.append(Tok("life", src[i:j], i, j)); i = j
                continue
        m = _ident.match(src, i)
        if m:
            toks.append(Tok("id", m.group(0), i, m.end())); i = m.end()
            continue
        m = _num.match(src, i)
        if m:
            # do not swallow `0..n` as a float
            t = m.group(0)
            if ".." in src[i:i + len(t) + 1] and "." in t:
                t = t.split(".")[0]
            toks.append(Tok("lit", t, i, i + len(t))); i += len(t)
            continue
        for p in ("..=", "...", "::", "->", "=>", "==", "!=", "<=", ">=", "&&", "||",
                  "+=", "-=", "*=", "/=", "%=", "^=", "&=", "|=", ".."):
            if src.startswith(p, i):
                toks.append(Tok("p", p, i, i + len(p))); i += len(p)
                break
        else:
            toks.append(Tok("p", c, i, i + 1)); i += 1
    # bracket matching for () [] {}
    stack = []
    pairs = {")": "(", "]": "[", "}": "{"}
    for k, t in enumerate(toks):
        if t.kind == "p" and t.text in "([{":
            stack.append(k)
        elif t.kind == "p" and t.text in ")]}":
            if stack and toks[stack[-1]].text == pairs[t.text]:
                o = stack.pop()
                toks[o].match = k
                t.match = o
    return toks


SPEC_KW = ("requires", "ensures", "recommends", "decreases", "returns", "no_unwind", "opens_invariants")


class Loop:
    def __init__(self, kw, open_brace, close_brace, kw_tok=None):
        self.kw, self.open, self.close = kw, open_brace, close_brace  # token indices
        self.kw_tok = kw_tok   # index of the first token of the loop statement (label included)

class Closure:
    def __init__(self, bar1, bar2, body_start, body_end):
        # token indices: first `|`, second `|`, first body token, last body token (inclusive)
        self.bar1, self.bar2, self.body_start, self.body_end = bar1, bar2, body_start, body_end

class Fn:
    def __init__(self):
        self.name = None
        self.container = []      # list of container names, outermost first
        self.fn_tok = None       # index of `fn`
        self.item_start = None   # index of first token of the item (attributes/visibility included)
        self.params_open = None
        self.params_close = None
        self.arrow = None        # index of `->` or None
        self.ret_start = None    # first token of return type
        self.ret_end = None      # last token of return type (inclusive)
        self.where_tok = None
        self.body_open = None    # index of `{` or None (declaration)
        self.body_close = None
        self.semi = None         # index of `;` for declarations
        self.loops = []
        self.closures = []
    @property
    def path(self):
        return "::".join(self.container + [self.name])


def _skip_generics(toks, k):
    """toks[k] is `<`; return index after the matching `>` (handles nesting and `->`)."""
    depth = 0
    while k < len(toks):
        t = toks[k]
        if t.kind == "p":
            if t.text == "<":
                depth += 1
            elif t.text == ">":
                depth -= 1
                if depth == 0:
                    return k + 1
            elif t.text in "([{":
                k = t.match
        k += 1
    return k


def _container_name(toks, k_open):
    """Name the item whose body opens at token k_open (`{`): returns (kind, name) or None."""
    # walk back to the start of the item header
    j = k_open - 1
    depth_angle = 0
    while j >= 0:
        t = toks[j]
        if t.kind == "p" and t.text in ")]}":
            # a `}` or `;` at this level ends the previous item
            if t.text == "}":
                break
            j = t.match - 1
            continue
        if t.kind == "p" and t.text in ";{":
            break
        j -= 1
    hdr = toks[j + 1:k_open]
    words = [t.text for t in hdr]
    if "impl" in words:
        a = words.index("impl")
        rest = hdr[a + 1:]
        # drop generics right after impl
        k = 0
        if rest and rest[0].text == "<":
            k = _skip_generics(rest, 0)
        rest = rest[k:]
        rw = [t.text for t in rest]
        if "where" in rw:
            rest = rest[:rw.index("where")]
            rw = rw[:rw.index("where")]
        # `Trait for Type` at angle depth 0
        depth, split = 0, None
        for q, t in enumerate(rest):
            if t.text == "<":
                depth += 1
            elif t.text == ">":
                depth -= 1
            elif t.text == "for" and depth == 0:
                split = q
        ty = rest[split + 1:] if split is not None else rest
        # self type name = last ident at angle depth 0 of the path
        depth, name = 0, None
        for t in ty:
            if t.text == "<":
                depth += 1
            elif t.text == ">":
                depth -= 1
            elif t.kind == "id" and depth == 0 and t.text not in ("dyn", "mut", "const"):
                name = t.text
        trait = None
        trait_full = None
        if split is not None:
            depth = 0
            for t in rest[:split]:
                if t.text == "<":
                    depth += 1
                elif t.text == ">":
                    depth -= 1
                elif t.kind == "id" and depth == 0:
                    trait = t.text
            # full text of the trait reference (generic arguments included, no whitespace): tells apart the
            # several `impl PartialEq<X> for T` blocks of one type
            trait_full = " ".join(t.text for t in rest[:split])
        return ("impl", name, trait, trait_full)
    for kw in ("trait", "mod"):
        if kw in words:
            a = words.index(kw)
            if a + 1 < len(hdr) and hdr[a + 1].kind == "id":
                return (kw, hdr[a + 1].text, None, None)
    return None


def index_functions(src, toks=None):
    toks = toks or lex(src)
    fns = []
    # container stack: list of (close_index, name)
    def containers_at(k):
        names = []
        # find all enclosing braces
        encl = []
        stack = []
        for q in range(k):
            t = toks[q]
            if t.kind == "p" and t.text == "{" and t.match > k:
                encl.append(q)
        for q in encl:
            c = _container_name(toks, q)
            if c is None:
                continue
            names.append(c)
        return names

    k = 0
    n = len(toks)
    while k < n:
        t = toks[k]
        if t.kind == "id" and t.text == "fn" and k + 1 < n and toks[k + 1].kind == "id":
            # exclude `fn(` types (no ident follows) - already excluded
            f = Fn()
            f.fn_tok = k
            f.name = toks[k + 1].text
            conts = containers_at(k)
            f.container = []
            f.trait = None
            f.trait_full = None
            for c in conts:
                f.container.append(c[1])
                if c[0] == "impl":
                    f.trait = c[2]
                    f.trait_full = c[3]
            # enclosing fn (nested fn)? we treat nested fns by their own name with the outer fn name as container
            for g in fns:
                if g.body_open is not None and g.body_open < k < g.body_close:
                    f.container = g.container + [g.name]
            # item start: walk back over visibility/qualifiers/attributes
            s = k
            while s - 1 >= 0:
                p = toks[s - 1]
                if p.kind == "id" and p.text in ("pub", "unsafe", "const", "async", "extern", "default"):
                    s -= 1
                elif p.kind == "p" and p.text == ")" and s - 2 >= 0 and toks[p.match - 1].text == "pub":
                    s = p.match - 1
                elif p.kind == "lit" and s - 2 >= 0 and toks[s - 2].text == "extern":
                    s -= 1
                elif p.kind == "p" and p.text == "]" and toks[p.match - 1].text == "#":
                    s = p.match - 1
                else:
                    break
            f.item_start = s
            q = k + 2
            if toks[q].text == "<":
                q = _skip_generics(toks, q)
            assert toks[q].text == "(", (f.name, toks[q])
            f.params_open = q
            f.params_close = toks[q].match
            q = f.params_close + 1
            if toks[q].text == "->":
                f.arrow = q
                f.ret_start = q + 1
                # return type runs to `where`, `{` (at depth 0) or `;`
                r = q + 1
                while True:
                    tt = toks[r]
                    if tt.kind == "id" and (tt.text == "where" or tt.text in SPEC_KW):
                        break
                    if tt.kind == "p" and tt.text in ("{", ";"):
                        break
                    if tt.kind == "p" and tt.text in "([":
                        r = tt.match + 1
                        continue
                    if tt.kind == "p" and tt.text == "<":
                        r = _skip_generics(toks, r)
                        continue
                    r += 1
                f.ret_end = r - 1
                q = r
            if toks[q].kind == "id" and toks[q].text == "where":
                f.where_tok = q
                while not (toks[q].kind == "p" and toks[q].text in ("{", ";")) and not (toks[q].kind == "id" and toks[q].text in SPEC_KW):
                    if toks[q].kind == "p" and toks[q].text in "([":
                        q = toks[q].match
                    q += 1
            if toks[q].kind == "id" and toks[q].text in SPEC_KW:
                # Verus spec clauses (annotated text): every clause ends with ',', so the body is the
                # first depth-0 `{` that directly follows a ','
                while True:
                    tt = toks[q]
                    if tt.kind == "p" and tt.text in "([":
                        q = tt.match + 1
                        continue
                    if tt.kind == "p" and tt.text == "{":
                        if toks[q - 1].text == ",":
                            break
                        q = tt.match + 1
                        continue
                    if tt.kind == "p" and tt.text == ";":
                        break
                    q += 1
            if toks[q].text == "{":
                f.body_open = q
                f.body_close = toks[q].match
            else:
                f.semi = q
            fns.append(f)
        k += 1

    # loops and closures per function (a nested fn's loops belong to the nested fn only)
    for f in fns:
        if f.body_open is None:
            continue
        nested = [g for g in fns if g is not f and g.body_open is not None and f.body_open < g.fn_tok < f.body_close]
        def in_nested(q):
            return any(g.fn_tok <= q <= g.body_close for g in nested)
        q = f.body_open + 1
        while q < f.body_close:
            t = toks[q]
            if in_nested(q):
                q += 1
                continue
            if t.kind == "id" and t.text in ("while", "loop", "for"):
                if t.text == "for" and toks[q + 1].text == "<":
                    q += 1
                    continue
                r = q + 1
                while not (toks[r].kind == "p" and toks[r].text == "{"):
                    if toks[r].kind == "p" and toks[r].text in "([":
                        r = toks[r].match
                    r += 1
                k0 = q
                if toks[q - 1].text == ":" and toks[q - 2].kind == "life":
                    k0 = q - 2
                f.loops.append(Loop(t.text, r, toks[r].match, k0))
            elif t.kind == "p" and t.text in ("|", "||"):
                # closure start if previous token is not an operand
                p = toks[q - 1]
                operand_before = (p.kind in ("id", "lit") and p.text not in ("return", "move", "in", "else", "match", "if", "while")) or \
                                 (p.kind == "p" and p.text in (")", "]", "}"))
                if not operand_before:
                    # find closing bar of the parameter list
                    r = q
                    if t.text == "|":
                        r = q + 1
                        while not (toks[r].kind == "p" and toks[r].text == "|"):
                            if toks[r].kind == "p" and toks[r].text in "([{":
                                r = toks[r].match
                            r += 1
                    b2 = r
                    # body: a block or an expression ending at `,` `)` `]` `}` `;` at depth 0
                    s = b2 + 1
                    e = s
                    if toks[s].text == "->":
                        # typed closure with block body
                        while toks[e].text != "{":
                            e += 1
                        e = toks[e].match
                    else:
                        while True:
                            tt = toks[e]
                            if tt.kind == "p" and tt.text in "([{":
                                e = tt.match + 1
                                continue
                            if tt.kind == "p" and tt.text in (",", ")", "]", "}", ";"):
                                break
                            e += 1
                        e -= 1
                    f.closures.append(Closure(q, b2, s, e))
                    q = b2 + 1
                    continue
            q += 1
    return toks, fns
