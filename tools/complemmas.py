"""G1a: "each component of a valid URI reference is a valid value of its component type", as Verus-checked
certificates over the RFC reference automata (the same DFAs C01 proves the generated validators equal to).

For the URI-reference automaton A and a component automaton B (scheme / authority / path / query / fragment) a
certificate consists of
  * START: a finite set of A-states (computed by BFS in python, untrusted) at which the component can begin, with
    Verus-checked lemmas that every run of A which follows the App. B delimiters up to the component's first
    character is in a START state (`scan` lemmas: closure of a state set under the non-delimiter characters, then
    the delimiter step);
  * REL: a finite set of pairs (A-state, B-state) containing START x {B's initial state}, closed under every
    character that is not a stop character of the component (Verus-checked, one lemma per A-state);
  * END: in a REL pair, if A accepts here (end of text) or can move on a closing delimiter, B accepts (Verus-checked);
  * the induction over the text (one recursive lemma), giving
        A_run(a, t)  ==>  B accepts the prefix of t up to the first stop character        for (a, B.start) in REL.
A false fact makes a lemma fail (python's sets are only proposals). The statements are phrased with the same `first_of`
scanning function as contracts/00_base.rs (its text is copied into the certificate file and compared with the
overlay's on every run).
"""
import os, sys, re, json, subprocess, time
from collections import deque
HERE = os.path.dirname(os.path.abspath(__file__))
sys.path.insert(0, HERE)
import abnf, dfa, langlemmas

MAXC = 0x10FFFF
COLON, SLASH, QUEST, HASH = 58, 47, 63, 35


def _points(D, extra=()):
    """representative characters: interval end points of every transition + the delimiters"""
    pts = set(extra)
    for q in range(D.n):
        for lo, hi, _ in D.trans[q]:
            pts.add(lo); pts.add(hi)
            if hi + 1 <= MAXC:
                pts.add(hi + 1)
            if lo - 1 >= 0:
                pts.add(lo - 1)
    pts.add(0); pts.add(MAXC)
    return sorted(pts)


def closure(A, init, avoid, pts):
    """A-states reachable from `init` by characters not in `avoid`"""
    seen = set(init)
    dq = deque(init)
    while dq:
        q = dq.popleft()
        for c in pts:
            if c in avoid:
                continue
            n = A.step(q, c)
            if n >= 0 and n not in seen:
                seen.add(n); dq.append(n)
    return seen


def product(A, B, starts, stops, pts, start_pairs=None):
    """pairs (a, b) reachable from starts x {0} (or the given pairs) by non-stop characters while A stays alive; b may be -1"""
    seen = set((a, 0) for a in starts) if start_pairs is None else set(start_pairs)
    dq = deque(seen)
    while dq:
        a, b = dq.popleft()
        for c in pts:
            if c in stops:
                continue
            na = A.step(a, c)
            if na < 0:
                continue
            nb = B.step(b, c) if b >= 0 else -1
            if (na, nb) not in seen:
                seen.add((na, nb)); dq.append((na, nb))
    return seen


def _set_spec(name, states):
    return "pub open spec fn %s(q: int) -> bool { %s }" % (name, " || ".join("q == %d" % x for x in sorted(states)) or "false")


def _rel_spec(name, pairs):
    by = {}
    for a, b in pairs:
        by.setdefault(a, []).append(b)
    lines = ["pub open spec fn %s(a: int, b: int) -> bool {" % name]
    first = True
    for a in sorted(by):
        lines.append("    %s a == %d { %s }" % ("if" if first else "else if", a, " || ".join("b == %d" % x for x in sorted(by[a]))))
        first = False
    lines.append("    else { false }\n}" if by else "    false\n}")
    return "\n".join(lines), by


def _in_set(var, chars):
    return "(" + " || ".join("%s == %d" % (var, c) for c in sorted(chars)) + ")" if chars else "false"


PRELUDE = """use vstd::prelude::*;
verus! {
"""

RUN = """pub open spec fn {n}_run(q: int, s: Seq<int>) -> bool
    decreases s.len()
{{
    if q < 0 {{ false }} else if s.len() == 0 {{ {n}_final(q) }} else {{ {n}_run({n}_step(q, s[0]), s.drop_first()) }}
}}
/// state reached after the first n characters (-1 = dead)
pub open spec fn {n}_at(q: int, s: Seq<int>, n: int) -> int
    decreases n
{{
    if n <= 0 || q < 0 {{ q }} else if s.len() == 0 {{ q }} else {{ {n}_at({n}_step(q, s[0]), s.drop_first(), n - 1) }}
}}
/// one more character
pub proof fn {n}_at_next(q: int, s: Seq<int>, n: int)
    requires 0 <= n < s.len(), {n}_at(q, s, n) >= 0,
    ensures {n}_at(q, s, n + 1) == {n}_step({n}_at(q, s, n), s[n]),
    decreases n
{{
    if n > 0 {{
        if q >= 0 {{
            assert({n}_at(q, s, n) == {n}_at({n}_step(q, s[0]), s.drop_first(), n - 1));
            assert({n}_at(q, s, n + 1) == {n}_at({n}_step(q, s[0]), s.drop_first(), n));
            {n}_at_next({n}_step(q, s[0]), s.drop_first(), n - 1);
            assert(s.drop_first()[n - 1] == s[n]);
        }}
    }} else {{
        assert({n}_at(q, s, 0) == q);
        assert({n}_at(q, s, 1) == {n}_at({n}_step(q, s[0]), s.drop_first(), 0));
        assert({n}_at({n}_step(q, s[0]), s.drop_first(), 0) == {n}_step(q, s[0]));
    }}
}}
/// reading n then m characters = reading n + m
pub proof fn {n}_at_add(q: int, s: Seq<int>, n: int, m: int)
    requires 0 <= n, 0 <= m, n + m <= s.len(),
    ensures {n}_at(q, s, n + m) == {n}_at({n}_at(q, s, n), s.skip(n), m),
    decreases n
{{
    if n == 0 || q < 0 {{
        assert(s.skip(0) =~= s);
        if q < 0 {{ {n}_at_neg(s, n + m); {n}_at_neg(s, n); {n}_at_neg(s.skip(n), m); }}
    }} else {{
        {n}_at_add({n}_step(q, s[0]), s.drop_first(), n - 1, m);
        assert(s.drop_first().skip(n - 1) =~= s.skip(n));
    }}
}}
/// the state after n characters only depends on those characters
pub proof fn {n}_at_prefix(q: int, p: Seq<int>, s: Seq<int>, n: int)
    requires 0 <= n <= p.len(), n <= s.len(), forall|i: int| 0 <= i < n ==> p[i] == s[i],
    ensures {n}_at(q, p, n) == {n}_at(q, s, n),
    decreases n
{{
    if n > 0 && q >= 0 {{
        assert forall|i: int| 0 <= i < n - 1 implies p.drop_first()[i] == s.drop_first()[i] by {{ assert(p.drop_first()[i] == p[i + 1]); assert(s.drop_first()[i] == s[i + 1]); }}
        assert(p[0] == s[0]);
        {n}_at_prefix({n}_step(q, p[0]), p.drop_first(), s.drop_first(), n - 1);
    }}
}}
/// an accepted text leads to an accepting state
pub proof fn {n}_run_at(q: int, s: Seq<int>)
    requires {n}_run(q, s),
    ensures {n}_at(q, s, s.len() as int) >= 0, {n}_final({n}_at(q, s, s.len() as int)),
{{
    {n}_split(q, s, s.len() as int);
    assert(s.skip(s.len() as int) =~= Seq::<int>::empty());
    if {n}_at(q, s, s.len() as int) < 0 {{ {n}_dead(Seq::<int>::empty()); }}
}}
/// ... and conversely
pub proof fn {n}_at_run(q: int, s: Seq<int>)
    requires {n}_at(q, s, s.len() as int) >= 0, {n}_final({n}_at(q, s, s.len() as int)),
    ensures {n}_run(q, s),
{{
    {n}_split(q, s, s.len() as int);
    assert(s.skip(s.len() as int) =~= Seq::<int>::empty());
}}
pub proof fn {n}_at_neg(s: Seq<int>, n: int)
    ensures forall|q: int| q < 0 ==> #[trigger] {n}_at(q, s, n) == q,
{{ }}
pub proof fn {n}_dead(s: Seq<int>)
    ensures !{n}_run(-1, s),
{{ }}
/// acceptance of the whole text = acceptance of the rest from the state reached after n characters
pub proof fn {n}_split(q: int, s: Seq<int>, n: int)
    requires 0 <= n <= s.len(),
    ensures {n}_run(q, s) == {n}_run({n}_at(q, s, n), s.skip(n)),
    decreases n
{{
    if n == 0 || q < 0 {{
        assert(s.skip(0) =~= s);
    }} else {{
        {n}_split({n}_step(q, s[0]), s.drop_first(), n - 1);
        assert(s.drop_first().skip(n - 1) =~= s.skip(n));
    }}
}}
"""


def gen_component(name, A, B, a_name, b_name, start_init, scans, stops, close_on_end, close_on, emit_a=True, emit_b=True, prelude=True, start_pairs=None, converse=False):
    """
    start_init: set of A states before the scans; scans: list of (avoid set, delimiter char or None): the component starts
    after following, from a state of the current set, characters outside `avoid` and then the delimiter (None: no
    delimiter step - the component starts right there).
    stops: characters that end the component; close_on_end: claim B accepts when the text ends inside the component;
    close_on: subset of stops at which the claim "B accepts" is made (A must be able to move on it).
    Returns verus source (one file) and counts.
    """
    pts = _points(A, [COLON, SLASH, QUEST, HASH]) + _points(B)
    pts = sorted(set(pts))
    parts = [PRELUDE] if prelude else []
    if emit_a:
        parts.append("// %s: %d states" % (a_name, A.n)); parts.append(dfa._step_spec(a_name, A)); parts.append(RUN.format(n=a_name))
    if emit_b:
        parts.append("// %s: %d states" % (b_name, B.n)); parts.append(dfa._step_spec(b_name, B)); parts.append(RUN.format(n=b_name))
    cur = set(start_init)
    lemmas = 0
    scan_names = []
    cursets = [set(cur)]
    parts.append(_set_spec("%s_cur0" % name, cur))
    for i, sc in enumerate(scans):
        avoid, delim = sc[0], sc[1]
        union_prev = len(sc) > 2 and sc[2]
        rn = "%s_reg%d" % (name, i)
        if avoid is None:
            reg = set(cur)
            parts.append(_set_spec(rn, reg))
        else:
            reg = closure(A, cur, avoid, pts)
            parts.append(_set_spec(rn, reg))
            # closure lemmas, one per state
            for q in sorted(reg):
                parts.append("proof fn %s_c%d(q: int, c: int)\n    requires q == %d, !%s, %s_step(q, c) >= 0,\n    ensures %s(%s_step(q, c)),\n{ }" % (rn, q, q, _in_set("c", avoid), a_name, rn, a_name))
                lemmas += 1
            disp = "\n".join("        %s q == %d { %s_c%d(q, s[0]); }" % ("if" if j == 0 else "else if", q, rn, q) for j, q in enumerate(sorted(reg)))
            parts.append("""/// scanning n characters outside the delimiter set keeps A inside the region (or kills it)
pub proof fn %(rn)s_scan(q: int, s: Seq<int>, n: int)
    requires %(rn)s(q), 0 <= n <= s.len(), forall|i: int| 0 <= i < n ==> !%(av)s,
    ensures %(a)s_at(q, s, n) < 0 || %(rn)s(%(a)s_at(q, s, n)),
    decreases n
{
    if n > 0 {
        let c = s[0];
        assert(!%(avc)s);
        if %(a)s_step(q, c) >= 0 {
%(disp)s
            assert forall|i: int| 0 <= i < n - 1 implies !%(av1)s by { assert(s.drop_first()[i] == s[i + 1]); }
            %(rn)s_scan(%(a)s_step(q, c), s.drop_first(), n - 1);
            assert(%(a)s_at(q, s, n) == %(a)s_at(%(a)s_step(q, c), s.drop_first(), n - 1));
        } else {
            assert(%(a)s_at(q, s, n) == %(a)s_at(%(a)s_step(q, c), s.drop_first(), n - 1));
            %(a)s_at_neg(s.drop_first(), n - 1);
        }
    }
}""" % {"rn": rn, "a": a_name, "av": _in_set("#[trigger] s[i]", avoid), "avc": _in_set("c", avoid), "av1": _in_set("#[trigger] s.drop_first()[i]", avoid), "disp": disp})
            lemmas += 1
        parts.append("proof fn %s_cur%d_in_reg(q: int)\n    requires %s_cur%d(q),\n    ensures %s(q),\n{ }" % (name, i, name, i, rn))
        scan_names.append((rn, avoid, delim))
        if delim is not None:
            nxt = set(A.step(q, delim) for q in reg)
            nxt.discard(-1)
        else:
            nxt = set(reg)
        if union_prev:
            nxt |= cur
        cur = nxt
        cursets.append(set(cur))
        parts.append(_set_spec("%s_cur%d" % (name, i + 1), cur))
        if delim is not None:
            parts.append("proof fn %s_enter%d(q: int)\n    requires %s(q), %s_step(q, %d) >= 0,\n    ensures %s_cur%d(%s_step(q, %d)),\n{ }" % (name, i, rn, a_name, delim, name, i + 1, a_name, delim))
            lemmas += 1
        if union_prev:
            parts.append("proof fn %s_keep%d(q: int)\n    requires %s_cur%d(q),\n    ensures %s_cur%d(q),\n{ }" % (name, i, name, i, name, i + 1))
    starts = cur
    sn = "%s_cur%d" % (name, len(scans))
    pairs = product(A, B, starts, stops, pts, start_pairs)
    rel, by = _rel_spec("%s_rel" % name, pairs)
    parts.append(rel)
    if start_pairs is None:
        parts.append("proof fn %s_rel_start(a: int)\n    requires %s(a),\n    ensures %s_rel(a, 0),\n{ }" % (name, sn, name))
    bstep = "(if b >= 0 { %s_step(b, c) } else { -1int })" % b_name
    for a in sorted(by):
        parts.append("proof fn %s_s%d(a: int, b: int, c: int)\n    requires a == %d, %s_rel(a, b), !%s, %s_step(a, c) >= 0,\n    ensures %s_rel(%s_step(a, c), %s),\n{ }" % (name, a, a, name, _in_set("c", stops), a_name, name, a_name, bstep))
        lemmas += 1
    ends = []
    if close_on_end:
        ends.append("%s_final(a)" % a_name)
    for d in sorted(close_on):
        ends.append("%s_step(a, %d) >= 0" % (a_name, d))
    # one end lemma per closing condition (small queries)
    endl = []
    if close_on_end:
        parts.append("proof fn %s_end_eof(a: int, b: int)\n    requires %s_rel(a, b), %s_final(a),\n    ensures b >= 0 && %s_final(b),\n{ }" % (name, name, a_name, b_name))
        lemmas += 1
    for d in sorted(close_on):
        parts.append("proof fn %s_end_%d(a: int, b: int)\n    requires %s_rel(a, b), %s_step(a, %d) >= 0,\n    ensures b >= 0 && %s_final(b),\n{ }" % (name, d, name, a_name, d, b_name))
        lemmas += 1
    # the component claim as a recursive predicate over the rest of the text
    claim_stop = " else ".join(["if c == %d { %s }" % (d, ("b >= 0 && %s_final(b)" % b_name) if d in close_on else "true") for d in sorted(stops)] + ["{ %s_ok(%s, t.drop_first()) }" % (name, bstep)]) if stops else "%s_ok(%s, t.drop_first())" % (name, bstep)
    parts.append("""/// B accepts the prefix of t up to its first stop character (claimed only where the component is closed there)
pub open spec fn %(name)s_ok(b: int, t: Seq<int>) -> bool
    decreases t.len()
{
    if t.len() == 0 { %(eof)s } else { let c = t[0]; %(cs)s }
}""" % {"name": name, "eof": ("b >= 0 && %s_final(b)" % b_name) if close_on_end else "true", "cs": claim_stop})
    disp = "\n".join("            %s a == %d { %s_s%d(a, b, c); }" % ("if" if j == 0 else "else if", a, name, a) for j, a in enumerate(sorted(by)))
    stop_cases = "\n".join("            if c == %d { %s }" % (d, ("%s_end_%d(a, b);" % (name, d)) if d in close_on else "") for d in sorted(stops))
    parts.append("""pub proof fn %(name)s_mid(a: int, b: int, t: Seq<int>)
    requires %(name)s_rel(a, b), %(A)s_run(a, t),
    ensures %(name)s_ok(b, t),
    decreases t.len()
{
    if t.len() == 0 {
        %(eof)s
    } else {
        let c = t[0];
        assert(%(A)s_step(a, c) >= 0) by { if %(A)s_step(a, c) < 0 { %(A)s_dead(t.drop_first()); } }
        if %(isstop)s {
%(stop_cases)s
        } else {
%(disp)s
            %(name)s_mid(%(A)s_step(a, c), %(bstep)s, t.drop_first());
        }
    }
}""" % {"name": name, "A": a_name, "eof": ("%s_end_eof(a, b);" % name) if close_on_end else "", "isstop": _in_set("c", stops), "stop_cases": stop_cases, "disp": disp, "bstep": bstep})
    lemmas += 1
    if stops:
        parts.append("""/// after n characters that are not stop characters, A (if alive) and B are still a REL pair
pub proof fn %(name)s_track(a: int, b: int, t: Seq<int>, n: int)
    requires %(name)s_rel(a, b), 0 <= n <= t.len(), forall|i: int| 0 <= i < n ==> !%(st)s,
    ensures %(A)s_at(a, t, n) < 0 || %(name)s_rel(%(A)s_at(a, t, n), %(B)s_at(b, t, n)),
    decreases n
{
    if n > 0 {
        let c = t[0];
        assert(!%(stc)s);
        if %(A)s_step(a, c) >= 0 {
%(disp)s
            assert forall|i: int| 0 <= i < n - 1 implies !%(st1)s by { assert(t.drop_first()[i] == t[i + 1]); }
            %(name)s_track(%(A)s_step(a, c), %(bstep)s, t.drop_first(), n - 1);
            assert(%(A)s_at(a, t, n) == %(A)s_at(%(A)s_step(a, c), t.drop_first(), n - 1));
            assert(%(B)s_at(b, t, n) == %(B)s_at(%(bstep)s, t.drop_first(), n - 1)) by { if b < 0 { %(B)s_at_neg(t, n); %(B)s_at_neg(t.drop_first(), n - 1); } }
        } else {
            assert(%(A)s_at(a, t, n) == %(A)s_at(%(A)s_step(a, c), t.drop_first(), n - 1));
            %(A)s_at_neg(t.drop_first(), n - 1);
        }
    }
}""" % {"name": name, "A": a_name, "B": b_name, "bstep": bstep, "st": _in_set("#[trigger] t[i]", stops), "stc": _in_set("c", stops), "st1": _in_set("#[trigger] t.drop_first()[i]", stops), "disp": disp})
        ends_a = sorted(set(a for a, b in pairs))
        parts.append(_set_spec("%s_endst" % name, ends_a))
        parts.append("proof fn %s_rel_endst(a: int, b: int)\n    requires %s_rel(a, b),\n    ensures %s_endst(a),\n{ }" % (name, name, name))
        lemmas += 2
    if converse:
        # progress: while B is alive on a non-stop character, A is alive too (one lemma per A-state)
        for a in sorted(by):
            parts.append("proof fn %s_p%d(a: int, b: int, c: int)\n    requires a == %d, %s_rel(a, b), b >= 0, !%s, %s_step(b, c) >= 0,\n    ensures %s_step(a, c) >= 0,\n{ }" % (name, a, a, name, _in_set("c", stops), b_name, a_name))
            lemmas += 1
        pdisp = "\n".join("        %s a == %d { %s_p%d(a, b, c); %s_s%d(a, b, c); }" % ("if" if j == 0 else "else if", a, name, a, name, a) for j, a in enumerate(sorted(by)))
        parts.append("""/// forward simulation: as long as B is alive on characters that are not stop characters, A is alive and the pair stays in REL
pub proof fn %(name)s_fwd(a: int, b: int, t: Seq<int>, n: int)
    requires %(name)s_rel(a, b), b >= 0, 0 <= n <= t.len(), %(q0)s, %(B)s_at(b, t, n) >= 0,
    ensures %(A)s_at(a, t, n) >= 0, %(name)s_rel(%(A)s_at(a, t, n), %(B)s_at(b, t, n)),
    decreases n
{
    if n > 0 {
        let c = t[0];
        assert(!%(stc)s);
        assert(%(B)s_at(b, t, n) == %(B)s_at(%(B)s_step(b, c), t.drop_first(), n - 1));
        if %(B)s_step(b, c) < 0 { %(B)s_at_neg(t.drop_first(), n - 1); }
%(pdisp)s
        %(q1)s
        %(name)s_fwd(%(A)s_step(a, c), %(B)s_step(b, c), t.drop_first(), n - 1);
        assert(%(A)s_at(a, t, n) == %(A)s_at(%(A)s_step(a, c), t.drop_first(), n - 1));
    }
}""" % {"name": name, "A": a_name, "B": b_name, "stc": _in_set("c", stops) if stops else "false", "pdisp": pdisp,
       "q0": ("forall|i: int| 0 <= i < n ==> !%s" % _in_set("#[trigger] t[i]", stops)) if stops else "true",
       "q1": ("assert forall|i: int| 0 <= i < n - 1 implies !%s by { assert(t.drop_first()[i] == t[i + 1]); }" % _in_set("#[trigger] t.drop_first()[i]", stops)) if stops else ""})
        lemmas += 1
        parts.append("""/// forward simulation between two positions of a text
pub proof fn %(name)s_span(s: Seq<int>, p0: int, p1: int, a: int, b: int)
    requires 0 <= p0 <= p1 <= s.len(), %(A)s_at(0, s, p0) == a, %(name)s_rel(a, b), b >= 0,
        %(B)s_at(b, s.subrange(p0, p1), p1 - p0) >= 0, %(q0)s,
    ensures %(A)s_at(0, s, p1) >= 0, %(name)s_rel(%(A)s_at(0, s, p1), %(B)s_at(b, s.subrange(p0, p1), p1 - p0)),
{
    let sub = s.subrange(p0, p1);
    %(q1)s
    %(name)s_fwd(a, b, sub, p1 - p0);
    %(A)s_at_add(0, s, p0, p1 - p0);
    assert forall|i: int| 0 <= i < p1 - p0 implies sub[i] == s.skip(p0)[i] by { }
    %(A)s_at_prefix(a, sub, s.skip(p0), p1 - p0);
}""" % {"name": name, "A": a_name, "B": b_name,
       "q0": ("forall|i: int| p0 <= i < p1 ==> !%s" % _in_set("#[trigger] s[i]", stops)) if stops else "true",
       "q1": ("assert forall|i: int| 0 <= i < p1 - p0 implies !%s by { assert(sub[i] == s[i + p0]); }" % _in_set("#[trigger] sub[i]", stops)) if stops else ""})
        lemmas += 1
        okend = sorted(set(a for a, b in pairs if b >= 0 and b in B.finals))
        parts.append(_set_spec("%s_okend" % name, okend))
        parts.append("proof fn %s_rel_okend(a: int, b: int)\n    requires %s_rel(a, b), b >= 0, %s_final(b),\n    ensures %s_okend(a),\n{ }" % (name, name, b_name, name))
        lemmas += 1
        if stops and all(B.step(b, d) < 0 for b in range(B.n) for d in stops):
            parts.append("proof fn %s_nostop(b: int, c: int)\n    requires b >= 0, %s_step(b, c) >= 0,\n    ensures !%s,\n{ }" % (name, b_name, _in_set("c", stops)))
            parts.append("""/// a text B stays alive on contains no stop character
pub proof fn %(name)s_nostop_all(b: int, t: Seq<int>, n: int)
    requires b >= 0, 0 <= n <= t.len(), %(B)s_at(b, t, n) >= 0,
    ensures forall|i: int| 0 <= i < n ==> !%(st)s,
    decreases n
{
    if n > 0 {
        let c = t[0];
        assert(%(B)s_at(b, t, n) == %(B)s_at(%(B)s_step(b, c), t.drop_first(), n - 1));
        if %(B)s_step(b, c) < 0 { %(B)s_at_neg(t.drop_first(), n - 1); }
        %(name)s_nostop(b, c);
        %(name)s_nostop_all(%(B)s_step(b, c), t.drop_first(), n - 1);
        assert forall|i: int| 0 <= i < n implies !%(st)s by { if i > 0 { assert(t[i] == t.drop_first()[i - 1]); assert(!%(st1)s) by { let j = i - 1; assert(!%(stj)s); } } }
    }
}""" % {"name": name, "B": b_name, "st": _in_set("#[trigger] t[i]", stops), "st1": _in_set("t.drop_first()[i - 1]", stops), "stj": _in_set("t.drop_first()[j]", stops)})
            lemmas += 2
    no_reenter = all(B.step(b, c) != 0 for b in range(B.n) for c in pts)
    if converse and stops and not all(B.step(b, d) < 0 for b in range(B.n) for d in stops) and no_reenter and all(B.step(b, d) < 0 for (a, b) in pairs if b > 0 for d in stops):
        # in a REL pair whose B-state is not B's initial state, B never moves on a stop character
        parts.append("proof fn %s_noreenter(b: int, c: int)\n    ensures %s_step(b, c) != 0,\n{ }" % (name, b_name))
        for a in sorted(by):
            parts.append("proof fn %s_pn%d(a: int, b: int, c: int)\n    requires a == %d, %s_rel(a, b), b > 0, %s_step(b, c) >= 0,\n    ensures !%s,\n{ }" % (name, a, a, name, b_name, _in_set("c", stops)))
            lemmas += 1
        pn_disp = "\n".join("        %s a == %d { %s_pn%d(a, b, c); %s_p%d(a, b, c); %s_s%d(a, b, c); }" % ("if" if j == 0 else "else if", a, name, a, name, a, name, a) for j, a in enumerate(sorted(by)))
        parts.append("""/// forward simulation without a hypothesis on the text: past B's initial state, B never moves on a stop character
pub proof fn %(name)s_fwd2(a: int, b: int, t: Seq<int>, n: int)
    requires %(name)s_rel(a, b), b > 0, 0 <= n <= t.len(), %(B)s_at(b, t, n) >= 0,
    ensures %(A)s_at(a, t, n) >= 0, %(name)s_rel(%(A)s_at(a, t, n), %(B)s_at(b, t, n)),
    decreases n
{
    if n > 0 {
        let c = t[0];
        assert(%(B)s_at(b, t, n) == %(B)s_at(%(B)s_step(b, c), t.drop_first(), n - 1));
        if %(B)s_step(b, c) < 0 { %(B)s_at_neg(t.drop_first(), n - 1); }
        %(name)s_noreenter(b, c);
%(pn_disp)s
        %(name)s_fwd2(%(A)s_step(a, c), %(B)s_step(b, c), t.drop_first(), n - 1);
        assert(%(A)s_at(a, t, n) == %(A)s_at(%(A)s_step(a, c), t.drop_first(), n - 1));
    }
}""" % {"name": name, "A": a_name, "B": b_name, "pn_disp": pn_disp})
        lemmas += 2
    return "\n".join(parts), {"start_states": len(starts), "pairs": len(pairs), "lemmas": lemmas, "end_states": sorted(set(a for a, b in pairs)), "cursets": cursets}, scan_names, sn


def ok_run_lemma(name, b_name, stops, close_on_end, close_on):
    if not stops:
        return """pub proof fn %(name)s_ok_run(b: int, t: Seq<int>, e: int)
    requires %(name)s_ok(b, t), e == t.len(),
    ensures b >= 0 && %(B)s_run(b, t.subrange(0, e)),
    decreases t.len()
{
    assert(t.subrange(0, e) =~= t);
    if t.len() > 0 {
        let nb = if b >= 0 { %(B)s_step(b, t[0]) } else { -1int };
        %(name)s_ok_run(nb, t.drop_first(), e - 1);
        assert(t.drop_first().subrange(0, e - 1) =~= t.drop_first());
    }
}""" % {"name": name, "B": b_name}
    closing = []
    if close_on_end:
        closing.append("e == t.len()")
    if close_on:
        closing.append("(e < t.len() && %s)" % _in_set("t[e]", close_on))
    return """/// the claim, unfolded: B accepts the text up to position e when e is where the component ends
pub proof fn %(name)s_ok_run(b: int, t: Seq<int>, e: int)
    requires %(name)s_ok(b, t), 0 <= e <= t.len(), forall|i: int| 0 <= i < e ==> !%(st)s, %(closing)s,
    ensures b >= 0 && %(B)s_run(b, t.subrange(0, e)),
    decreases e
{
    if e == 0 {
        assert(t.subrange(0, 0) =~= Seq::<int>::empty());
    } else {
        let c = t[0];
        assert(!%(stc)s);
        let nb = if b >= 0 { %(B)s_step(b, c) } else { -1int };
        assert forall|i: int| 0 <= i < e - 1 implies !%(st1)s by { assert(t.drop_first()[i] == t[i + 1]); }
        if e < t.len() { assert(t.drop_first()[e - 1] == t[e]); }
        %(name)s_ok_run(nb, t.drop_first(), e - 1);
        assert(t.subrange(0, e).drop_first() =~= t.drop_first().subrange(0, e - 1));
        assert(t.subrange(0, e)[0] == c);
    }
}""" % {"name": name, "B": b_name, "st": _in_set("#[trigger] t[i]", stops), "stc": _in_set("c", stops), "st1": _in_set("#[trigger] t.drop_first()[i]", stops), "closing": " || ".join(closing)}


def fragment_cert(A, B, a_name="UriRef", b_name="Fragment", name="frag"):
    src, info, scans, sn = gen_component(name, A, B, a_name, b_name, {0}, [({HASH}, HASH)], set(), True, set())
    src += "\n" + ok_run_lemma(name, b_name, set(), True, set())
    src += """
/// FACT: in a valid %(A)s whose first '#' is at k, the text after it is a valid %(B)s
pub proof fn comp_%(name)s(s: Seq<int>, k: int)
    requires %(A)s_run(0, s), 0 <= k < s.len(), s[k] == 35, forall|i: int| 0 <= i < k ==> #[trigger] s[i] != 35,
    ensures %(B)s_run(0, s.skip(k + 1)),
{
    let q = %(A)s_at(0, s, k);
    %(A)s_split(0, s, k);
    %(name)s_reg0_scan(0, s, k);
    if q < 0 { %(A)s_dead(s.skip(k)); }
    let t = s.skip(k);
    assert(t[0] == 35);
    assert(t.drop_first() =~= s.skip(k + 1));
    let a = %(A)s_step(q, 35);
    if a < 0 { %(A)s_dead(s.skip(k + 1)); }
    %(name)s_enter0(q);
    %(name)s_rel_start(a);
    %(name)s_mid(a, 0, s.skip(k + 1));
    let r = s.skip(k + 1);
    %(name)s_ok_run(0, r, r.len() as int);
    assert(r.subrange(0, r.len() as int) =~= r);
}
} // verus!
fn main() {}
""" % {"A": a_name, "B": b_name, "name": name}
    return src, info


if __name__ == "__main__":
    import tempfile
    A = dfa.reference("rfc3986.abnf", "URI-reference")
    B = dfa.reference("rfc3986.abnf", "fragment")
    src, info = fragment_cert(A, B)
    w = sys.argv[1] if len(sys.argv) > 1 else tempfile.mkdtemp(prefix="iref-verif-comp-", dir="/tmp")
    os.makedirs(w, exist_ok=True)
    p = os.path.join(w, "comp_frag.rs")
    open(p, "w").write(src)
    print(info, len(src.split("\n")), "lines")
    os.environ["RUST_MIN_STACK"] = "268435456"
    r = langlemmas.run_verus(p, rlimit=600)
    print({k: v for k, v in r.items() if k != "stderr"})
    print(r["stderr"][-3000:])


CSQF = {COLON, SLASH, QUEST, HASH}
SQF = {SLASH, QUEST, HASH}
QF = {QUEST, HASH}


def query_cert(A, B, a_name="UriRef", b_name="Query", name="query"):
    src, info, scans, sn = gen_component(name, A, B, a_name, b_name, {0}, [(QF, QUEST)], {HASH}, True, {HASH})
    src += "\n" + ok_run_lemma(name, b_name, {HASH}, True, {HASH})
    src += """
/// FACT: in a valid %(A)s whose first '?' is at k with no '#' before it, the text up to the next '#' (or the end) is a valid %(B)s
pub proof fn comp_%(name)s(s: Seq<int>, k: int, m: int)
    requires %(A)s_run(0, s), 0 <= k < s.len(), s[k] == 63, forall|i: int| 0 <= i < k ==> #[trigger] s[i] != 63 && s[i] != 35,
        k + 1 <= m <= s.len(), forall|i: int| k + 1 <= i < m ==> #[trigger] s[i] != 35, m == s.len() || s[m] == 35,
    ensures %(B)s_run(0, s.subrange(k + 1, m)),
{
    let q = %(A)s_at(0, s, k);
    %(A)s_split(0, s, k);
    assert forall|i: int| 0 <= i < k implies !(#[trigger] s[i] == 35 || s[i] == 63) by { }
    %(name)s_reg0_scan(0, s, k);
    if q < 0 { %(A)s_dead(s.skip(k)); }
    let t = s.skip(k);
    assert(t[0] == 63);
    assert(t.drop_first() =~= s.skip(k + 1));
    let a = %(A)s_step(q, 63);
    if a < 0 { %(A)s_dead(s.skip(k + 1)); }
    %(name)s_enter0(q);
    %(name)s_rel_start(a);
    let r = s.skip(k + 1);
    %(name)s_mid(a, 0, r);
    assert forall|i: int| 0 <= i < m - k - 1 implies !(#[trigger] r[i] == 35) by { assert(r[i] == s[i + k + 1]); }
    if m < s.len() { assert(r[m - k - 1] == s[m]); }
    %(name)s_ok_run(0, r, m - k - 1);
    assert(r.subrange(0, m - k - 1) =~= s.subrange(k + 1, m));
}
} // verus!
fn main() {}
""" % {"A": a_name, "B": b_name, "name": name}
    return src, info


def scheme_cert(A, B, a_name="UriRef", b_name="Scheme", name="scheme"):
    src, info, scans, sn = gen_component(name, A, B, a_name, b_name, {0}, [], CSQF, False, {COLON})
    src += "\n" + ok_run_lemma(name, b_name, CSQF, False, {COLON})
    src += """
/// FACT: in a valid %(A)s whose first delimiter among : / ? # is a ':' at k, the text before it is a valid %(B)s
pub proof fn comp_%(name)s(s: Seq<int>, k: int)
    requires %(A)s_run(0, s), 0 <= k < s.len(), s[k] == 58, forall|i: int| 0 <= i < k ==> !(#[trigger] s[i] == 35 || s[i] == 47 || s[i] == 58 || s[i] == 63),
    ensures %(B)s_run(0, s.subrange(0, k)),
{
    %(name)s_rel_start(0);
    %(name)s_mid(0, 0, s);
    %(name)s_ok_run(0, s, k);
}
} // verus!
fn main() {}
""" % {"A": a_name, "B": b_name, "name": name}
    return src, info


def hier_cert(A, AU, PA, a_name="UriRef"):
    """authority and path in one file (the path can start where the authority ends)"""
    s1, i1, _, _ = gen_component("au", A, AU, a_name, "Authority", {0}, [(CSQF, COLON, True), (None, SLASH), (None, SLASH)], SQF, True, SQF)
    hs = set(i1["cursets"][1])
    pts0 = sorted(set(_points(A, [COLON, SLASH, QUEST, HASH]) + _points(PA)))
    pap = set()
    for a in i1["end_states"]:
        a1 = A.step(a, SLASH)
        if a1 >= 0:
            pap.add((a1, PA.step(0, SLASH)))
    s2, i2, _, _ = gen_component("pa", A, PA, a_name, "Path", set(i1["end_states"]), [], QF, True, QF, emit_a=False, emit_b=True, prelude=False, start_pairs=pap)
    # no authority: the path starts at a hier start state and does not begin with "//": start pairs after the first
    # character (not '/'), or after '/' and a second character that is not '/'
    pts = sorted(set(_points(A, [COLON, SLASH, QUEST, HASH]) + _points(PA)))
    hs1 = set(i1["cursets"][1]) - {0}
    reg0 = closure(A, {0}, CSQF, pts)
    assert 0 not in set(A.step(q, COLON) for q in reg0), "the initial state is re-entered after a scheme: the case split of comp_path_noauth is not valid"
    sp = set()
    for q in hs:
        if q != 0:
            for c in pts:
                if c in SQF:
                    continue
                a1 = A.step(q, c)
                if a1 >= 0:
                    sp.add((a1, PA.step(0, c)))
        a1 = A.step(q, SLASH)
        if a1 >= 0:
            b1 = PA.step(0, SLASH)
            for c in pts:
                if c in SQF:
                    continue
                a2 = A.step(a1, c)
                if a2 >= 0:
                    sp.add((a2, PA.step(b1, c) if b1 >= 0 else -1))
    s3, i3, _, _ = gen_component("pn", A, PA, a_name, "Path", hs, [], QF, True, QF, emit_a=False, emit_b=False, prelude=False, start_pairs=sp)
    # no scheme, no authority, path not starting with '/': the first segment (up to the first of : / ? #) cannot contain ':'
    zs = set()
    for c in pts:
        if c in CSQF:
            continue
        a1 = A.step(0, c)
        if a1 >= 0:
            zs.add((a1, PA.step(0, c)))
    s4, i4, _, _ = gen_component("pz", A, PA, a_name, "Path", {0}, [], CSQF, True, QF, emit_a=False, emit_b=False, prelude=False, start_pairs=zs)
    zp = set()
    for (a, b) in product(A, PA, {0}, CSQF, pts, zs):
        a1 = A.step(a, SLASH)
        if a1 >= 0:
            zp.add((a1, PA.step(b, SLASH) if b >= 0 else -1))
    s5, i5, _, _ = gen_component("py", A, PA, a_name, "Path", {0}, [], QF, True, QF, emit_a=False, emit_b=False, prelude=False, start_pairs=zp)
    src = (s1 + "\n" + ok_run_lemma("au", "Authority", SQF, True, SQF) + "\n" + s2 + "\n" + ok_run_lemma("pa", "Path", QF, True, QF) + "\n" + s3 + "\n" + ok_run_lemma("pn", "Path", QF, True, QF)
           + "\n" + s4 + "\n" + ok_run_lemma("pz", "Path", CSQF, True, QF) + "\n" + s5 + "\n" + ok_run_lemma("py", "Path", QF, True, QF)
           + "\n" + _set_spec("au_hs1", hs1))
    src += """
pub open spec fn csqf(c: int) -> bool { c == 35 || c == 47 || c == 58 || c == 63 }
pub open spec fn sqf(c: int) -> bool { c == 35 || c == 47 || c == 63 }
pub open spec fn qf(c: int) -> bool { c == 35 || c == 63 }
/// position h is where the hierarchical part starts: 0, or right after the ':' that closes a scheme candidate
pub open spec fn hier_prefix(s: Seq<int>, h: int) -> bool {
    h == 0 || (0 < h <= s.len() && s[h - 1] == 58 && forall|i: int| 0 <= i < h - 1 ==> !csqf(#[trigger] s[i]))
}
proof fn pa_first(a: int)
    requires au_endst(a), %(A)s_step(a, 47) >= 0,
    ensures pa_rel(%(A)s_step(a, 47), Path_step(0, 47)),
{ }
proof fn pz_first(c: int)
    requires !csqf(c), %(A)s_step(0, c) >= 0,
    ensures pz_rel(%(A)s_step(0, c), Path_step(0, c)),
{ }
proof fn hs1_enter(q: int)
    requires au_reg0(q), %(A)s_step(q, 58) >= 0,
    ensures au_hs1(%(A)s_step(q, 58)),
{ }
proof fn py_enter(a: int, b: int)
    requires pz_rel(a, b), %(A)s_step(a, 47) >= 0,
    ensures py_rel(%(A)s_step(a, 47), if b >= 0 { Path_step(b, 47) } else { -1int }),
{ }
proof fn pn_first(q: int, c: int)
    requires au_hs1(q), !sqf(c), %(A)s_step(q, c) >= 0,
    ensures pn_rel(%(A)s_step(q, c), Path_step(0, c)),
{ }
proof fn pn_second(q: int, c: int)
    requires au_cur1(q), %(A)s_step(q, 47) >= 0, !sqf(c), %(A)s_step(%(A)s_step(q, 47), c) >= 0,
    ensures pn_rel(%(A)s_step(%(A)s_step(q, 47), c), if Path_step(0, 47) >= 0 { Path_step(Path_step(0, 47), c) } else { -1int }),
{ }
proof fn pn_e0(q: int)
    requires au_cur1(q), %(A)s_final(q) || %(A)s_step(q, 63) >= 0 || %(A)s_step(q, 35) >= 0,
    ensures Path_final(0),
{ }
proof fn pn_e1(q: int)
    requires au_cur1(q), %(A)s_step(q, 47) >= 0, %(A)s_final(%(A)s_step(q, 47)) || %(A)s_step(%(A)s_step(q, 47), 63) >= 0 || %(A)s_step(%(A)s_step(q, 47), 35) >= 0,
    ensures Path_step(0, 47) >= 0 && Path_final(Path_step(0, 47)),
{ }
pub proof fn %(A)s_at_dead_stays(s: Seq<int>, n: int, m: int)
    requires 0 <= n <= m <= s.len(), %(A)s_at(0, s, n) < 0,
    ensures %(A)s_at(0, s, m) < 0,
{
    %(A)s_at_add(0, s, n, m - n);
    %(A)s_at_neg(s.skip(n), m - n);
}
pub proof fn hier_state(s: Seq<int>, h: int)
    requires hier_prefix(s, h), 0 <= h <= s.len(),
    ensures %(A)s_at(0, s, h) < 0 || au_cur1(%(A)s_at(0, s, h)),
{
    if h == 0 {
        au_keep0(0);
    } else {
        au_cur0_in_reg(0);
        assert forall|i: int| 0 <= i < h - 1 implies !(#[trigger] s[i] == 35 || s[i] == 47 || s[i] == 58 || s[i] == 63) by { assert(!csqf(s[i])); }
        au_reg0_scan(0, s, h - 1);
        let q = %(A)s_at(0, s, h - 1);
        if q >= 0 {
            %(A)s_at_next(0, s, h - 1);
            if %(A)s_step(q, 58) >= 0 { au_enter0(q); }
        } else {
            %(A)s_at_dead_stays(s, h - 1, h);
        }
    }
}
/// the state after "//" at the start of the hierarchical part is an authority start state
proof fn auth_start_state(s: Seq<int>, h: int)
    requires hier_prefix(s, h), 0 <= h, h + 2 <= s.len(), s[h] == 47, s[h + 1] == 47,
    ensures %(A)s_at(0, s, h + 2) < 0 || au_cur3(%(A)s_at(0, s, h + 2)),
{
    hier_state(s, h);
    let q = %(A)s_at(0, s, h);
    if q < 0 { %(A)s_at_dead_stays(s, h, h + 2); } else {
        %(A)s_at_next(0, s, h);
        au_cur1_in_reg(q);
        let a1 = %(A)s_step(q, 47);
        if a1 < 0 { %(A)s_at_dead_stays(s, h + 1, h + 2); } else {
            au_enter1(q);
            %(A)s_at_next(0, s, h + 1);
            au_cur2_in_reg(a1);
            if %(A)s_step(a1, 47) >= 0 { au_enter2(a1); }
        }
    }
}
/// FACT: the text between "//" at the start of the hierarchical part and the next '/', '?', '#' (or the end) is a valid authority
pub proof fn comp_authority(s: Seq<int>, h: int, e: int)
    requires %(A)s_run(0, s), hier_prefix(s, h), 0 <= h, h + 2 <= s.len(), s[h] == 47, s[h + 1] == 47,
        h + 2 <= e <= s.len(), forall|i: int| h + 2 <= i < e ==> !sqf(#[trigger] s[i]), e == s.len() || sqf(s[e]),
    ensures Authority_run(0, s.subrange(h + 2, e)),
{
    auth_start_state(s, h);
    let a = %(A)s_at(0, s, h + 2);
    %(A)s_split(0, s, h + 2);
    if a < 0 { %(A)s_dead(s.skip(h + 2)); }
    au_rel_start(a);
    let r = s.skip(h + 2);
    au_mid(a, 0, r);
    assert forall|i: int| 0 <= i < e - h - 2 implies !(#[trigger] r[i] == 35 || r[i] == 47 || r[i] == 63) by { assert(r[i] == s[i + h + 2]); assert(!sqf(s[i + h + 2])); }
    if e < s.len() { assert(r[e - h - 2] == s[e]); assert(sqf(s[e])); }
    au_ok_run(0, r, e - h - 2);
    assert(r.subrange(0, e - h - 2) =~= s.subrange(h + 2, e));
}
/// the state at the end of the authority is a path start state
pub proof fn auth_end_state(s: Seq<int>, h: int, e: int)
    requires hier_prefix(s, h), 0 <= h, h + 2 <= s.len(), s[h] == 47, s[h + 1] == 47,
        h + 2 <= e <= s.len(), forall|i: int| h + 2 <= i < e ==> !sqf(#[trigger] s[i]),
    ensures %(A)s_at(0, s, e) < 0 || au_endst(%(A)s_at(0, s, e)),
{
    auth_start_state(s, h);
    let a = %(A)s_at(0, s, h + 2);
    if a < 0 { %(A)s_at_dead_stays(s, h + 2, e); } else {
        au_rel_start(a);
        let r = s.skip(h + 2);
        assert forall|i: int| 0 <= i < e - h - 2 implies !(#[trigger] r[i] == 35 || r[i] == 47 || r[i] == 63) by { assert(r[i] == s[i + h + 2]); assert(!sqf(s[i + h + 2])); }
        au_track(a, 0, r, e - h - 2);
        %(A)s_at_add(0, s, h + 2, e - h - 2);
        let ae = %(A)s_at(0, s, e);
        if ae >= 0 { au_rel_endst(ae, Authority_at(0, r, e - h - 2)); }
    }
}
/// the state at a hier start h > 0 is an after-scheme state
proof fn hier_state_scheme(s: Seq<int>, h: int)
    requires hier_prefix(s, h), 0 < h <= s.len(),
    ensures %(A)s_at(0, s, h) < 0 || au_hs1(%(A)s_at(0, s, h)),
{
    au_cur0_in_reg(0);
    assert forall|i: int| 0 <= i < h - 1 implies !(#[trigger] s[i] == 35 || s[i] == 47 || s[i] == 58 || s[i] == 63) by { assert(!csqf(s[i])); }
    au_reg0_scan(0, s, h - 1);
    let q = %(A)s_at(0, s, h - 1);
    if q >= 0 {
        %(A)s_at_next(0, s, h - 1);
        if %(A)s_step(q, 58) >= 0 { hs1_enter(q); }
    } else {
        %(A)s_at_dead_stays(s, h - 1, h);
    }
}
/// FACT: without an authority (no "//" at the start of the hierarchical part) the path starts where the hierarchical part
/// starts. When there is no scheme (h == 0), k0 is the position of the first of : / ? # and that character is not ':'.
pub proof fn comp_path_noauth(s: Seq<int>, h: int, k0: int, e: int)
    requires %(A)s_run(0, s), hier_prefix(s, h), 0 <= h <= e <= s.len(), !(h + 1 < s.len() && s[h] == 47 && s[h + 1] == 47),
        forall|i: int| h <= i < e ==> !qf(#[trigger] s[i]), e == s.len() || qf(s[e]),
        h == 0 ==> (0 <= k0 <= s.len() && (forall|i: int| 0 <= i < k0 ==> !csqf(#[trigger] s[i])) && (k0 == s.len() || (csqf(s[k0]) && s[k0] != 58))),
    ensures Path_run(0, s.subrange(h, e)),
{
    hier_state(s, h);
    let q = %(A)s_at(0, s, h);
    %(A)s_split(0, s, h);
    if q < 0 { %(A)s_dead(s.skip(h)); }
    let t = s.skip(h);
    let n = e - h;
    let p = s.subrange(h, e);
    if n == 0 {
        assert(p =~= Seq::<int>::empty());
        if t.len() > 0 { assert(t[0] == s[e]); if %(A)s_step(q, t[0]) < 0 { %(A)s_dead(t.drop_first()); } }
        pn_e0(q);
    } else if h == 0 && s[0] != 47 {
        // relative path without scheme: first segment up to k0 (no ':' in it), then (after a '/') the rest
        assert(k0 <= e) by { if k0 > e { assert(!csqf(s[e])); assert(qf(s[e])); } }
        assert(k0 > 0) by { if k0 == 0 { assert(csqf(s[0])); assert(!qf(s[0])); } }
        assert(s.skip(0) =~= s);
        assert(q == 0);
        let c0 = s[0];
        assert(!csqf(c0));
        let a1 = %(A)s_step(0, c0);
        if a1 < 0 { %(A)s_dead(s.drop_first()); }
        pz_first(c0);
        let b1 = Path_step(0, c0);
        let s1 = s.drop_first();
        assert(s1 =~= s.skip(1));
        assert forall|i: int| 0 <= i < k0 - 1 implies !(#[trigger] s1[i] == 35 || s1[i] == 47 || s1[i] == 58 || s1[i] == 63) by { assert(s1[i] == s[i + 1]); assert(!csqf(s[i + 1])); }
        assert(p =~= s.subrange(0, e));
        assert(p[0] == c0);
        if k0 == e {
            pz_mid(a1, b1, s1);
            if e < s.len() { assert(s1[k0 - 1] == s[e]); assert(qf(s[e])); }
            pz_ok_run(b1, s1, k0 - 1);
            assert(p.drop_first() =~= s1.subrange(0, k0 - 1));
        } else {
            // s[k0] is '/', the path goes on
            assert(!qf(s[k0]));
            assert(s[k0] == 47);
            pz_track(a1, b1, s1, k0 - 1);
            let a = %(A)s_at(a1, s1, k0 - 1);
            let b = Path_at(b1, s1, k0 - 1);
            %(A)s_split(a1, s1, k0 - 1);
            if a < 0 { %(A)s_dead(s1.skip(k0 - 1)); }
            let u = s1.skip(k0 - 1);
            assert(u[0] == s[k0]);
            let a2 = %(A)s_step(a, 47);
            if a2 < 0 { %(A)s_dead(u.drop_first()); }
            py_enter(a, b);
            let b2 = if b >= 0 { Path_step(b, 47) } else { -1int };
            let r = s.skip(k0 + 1);
            assert(u.drop_first() =~= r);
            py_mid(a2, b2, r);
            assert forall|i: int| 0 <= i < e - k0 - 1 implies !(#[trigger] r[i] == 35 || r[i] == 63) by { assert(r[i] == s[i + k0 + 1]); assert(!qf(s[i + k0 + 1])); }
            if e < s.len() { assert(r[e - k0 - 1] == s[e]); assert(qf(s[e])); }
            py_ok_run(b2, r, e - k0 - 1);
            // put the pieces together on the path text p = s[0..e]: p = c0 . s1[0..k0-1] . '/' . r[0..e-k0-1]
            let p1 = p.drop_first();
            assert(p1 =~= s1.subrange(0, e - 1));
            Path_split(b1, p1, k0);
            assert forall|i: int| 0 <= i < k0 - 1 implies p1[i] == s1[i] by { }
            path_at_prefix(b1, p1, s1, k0 - 1);
            assert(Path_at(b1, p1, k0 - 1) == b);
            assert(b >= 0) by { if b < 0 { assert(b2 < 0); } }
            Path_at_next(b1, p1, k0 - 1);
            assert(p1[k0 - 1] == 47);
            assert(p1.skip(k0) =~= r.subrange(0, e - k0 - 1));
        }
    } else {
        let c0 = t[0];
        assert(c0 == s[h]); assert(!qf(s[h]));
        let a1 = %(A)s_step(q, c0);
        if a1 < 0 { %(A)s_dead(t.drop_first()); }
        let t1 = t.drop_first();
        assert(t1 =~= s.skip(h + 1));
        assert(p[0] == c0);
        assert(p.drop_first() =~= s.subrange(h + 1, e));
        if c0 != 47 {
            assert(h > 0);
            hier_state_scheme(s, h);
            pn_first(q, c0);
            let b1 = Path_step(0, c0);
            pn_mid(a1, b1, t1);
            assert forall|i: int| 0 <= i < n - 1 implies !(#[trigger] t1[i] == 35 || t1[i] == 63) by { assert(t1[i] == s[i + h + 1]); assert(!qf(s[i + h + 1])); }
            if e < s.len() { assert(t1[n - 1] == s[e]); assert(qf(s[e])); }
            pn_ok_run(b1, t1, n - 1);
            assert(t1.subrange(0, n - 1) =~= s.subrange(h + 1, e));
        } else if n == 1 {
            assert(p.drop_first() =~= Seq::<int>::empty());
            if t1.len() > 0 { assert(t1[0] == s[e]); if %(A)s_step(a1, t1[0]) < 0 { %(A)s_dead(t1.drop_first()); } }
            pn_e1(q);
            assert(Path_run(Path_step(0, 47), p.drop_first()));
        } else {
            let c1 = t1[0];
            assert(c1 == s[h + 1]); assert(!qf(s[h + 1]));
            assert(c1 != 47);
            assert(%(A)s_run(a1, t1));
            let a2 = %(A)s_step(a1, c1);
            if a2 < 0 { %(A)s_dead(t1.drop_first()); }
            let t2 = t1.drop_first();
            assert(t2 =~= s.skip(h + 2));
            pn_second(q, c1);
            let b2 = if Path_step(0, 47) >= 0 { Path_step(Path_step(0, 47), c1) } else { -1int };
            pn_mid(a2, b2, t2);
            assert forall|i: int| 0 <= i < n - 2 implies !(#[trigger] t2[i] == 35 || t2[i] == 63) by { assert(t2[i] == s[i + h + 2]); assert(!qf(s[i + h + 2])); }
            if e < s.len() { assert(t2[n - 2] == s[e]); assert(qf(s[e])); }
            pn_ok_run(b2, t2, n - 2);
            assert(t2.subrange(0, n - 2) =~= s.subrange(h + 2, e));
            let p1 = p.drop_first();
            assert(p1[0] == c1);
            assert(p1.drop_first() =~= s.subrange(h + 2, e));
            assert(Path_run(b2, p1.drop_first()));
            assert(Path_step(0, 47) >= 0);
            assert(Path_run(Path_step(0, 47), p1));
        }
    }
}
/// the state after n characters only depends on those characters
proof fn path_at_prefix(q: int, p: Seq<int>, s: Seq<int>, n: int)
    requires 0 <= n <= p.len(), p.len() <= s.len(), forall|i: int| 0 <= i < n ==> p[i] == s[i],
    ensures Path_at(q, p, n) == Path_at(q, s, n),
    decreases n
{
    if n > 0 && q >= 0 {
        assert forall|i: int| 0 <= i < n - 1 implies p.drop_first()[i] == s.drop_first()[i] by { assert(p.drop_first()[i] == p[i + 1]); assert(s.drop_first()[i] == s[i + 1]); }
        assert(p[0] == s[0]);
        path_at_prefix(Path_step(q, p[0]), p.drop_first(), s.drop_first(), n - 1);
    }
}
/// FACT: with an authority the path starts where the authority ends (at a '/', '?', '#' or the end of the text)
pub proof fn comp_path_auth(s: Seq<int>, h: int, ae: int, e: int)
    requires %(A)s_run(0, s), hier_prefix(s, h), 0 <= h, h + 2 <= s.len(), s[h] == 47, s[h + 1] == 47,
        h + 2 <= ae <= e <= s.len(), forall|i: int| h + 2 <= i < ae ==> !sqf(#[trigger] s[i]), ae == s.len() || sqf(s[ae]),
        forall|i: int| ae <= i < e ==> !qf(#[trigger] s[i]), e == s.len() || qf(s[e]),
    ensures Path_run(0, s.subrange(ae, e)),
{
    auth_end_state(s, h, ae);
    let a = %(A)s_at(0, s, ae);
    %(A)s_split(0, s, ae);
    if a < 0 { %(A)s_dead(s.skip(ae)); }
    let p = s.subrange(ae, e);
    let n = e - ae;
    if n == 0 {
        assert(p =~= Seq::<int>::empty());
    } else {
        let t = s.skip(ae);
        assert(t[0] == s[ae]); assert(!qf(s[ae])); assert(sqf(s[ae]));
        assert(t[0] == 47);
        let a1 = %(A)s_step(a, 47);
        if a1 < 0 { %(A)s_dead(t.drop_first()); }
        pa_first(a);
        let b1 = Path_step(0, 47);
        let t1 = t.drop_first();
        assert(t1 =~= s.skip(ae + 1));
        pa_mid(a1, b1, t1);
        assert forall|i: int| 0 <= i < n - 1 implies !(#[trigger] t1[i] == 35 || t1[i] == 63) by { assert(t1[i] == s[i + ae + 1]); assert(!qf(s[i + ae + 1])); }
        if e < s.len() { assert(t1[n - 1] == s[e]); assert(qf(s[e])); }
        pa_ok_run(b1, t1, n - 1);
        assert(t1.subrange(0, n - 1) =~= s.subrange(ae + 1, e));
        assert(p[0] == 47);
        assert(p.drop_first() =~= s.subrange(ae + 1, e));
    }
}
} // verus!
fn main() {}
""" % {"A": a_name}
    return src, {"pairs": i1["pairs"] + i2["pairs"] + i3["pairs"] + i4["pairs"] + i5["pairs"], "lemmas": i1["lemmas"] + i2["lemmas"] + i3["lemmas"] + i4["lemmas"] + i5["lemmas"] + 16}


CERTS = {
    "uriref_hier": lambda: hier_cert(dfa.reference("rfc3986.abnf", "URI-reference"), dfa.reference("rfc3986.abnf", "authority"), dfa.reference("rfc3986.abnf", "path")),
    "uriref_fragment": lambda: fragment_cert(dfa.reference("rfc3986.abnf", "URI-reference"), dfa.reference("rfc3986.abnf", "fragment")),
    "uriref_query": lambda: query_cert(dfa.reference("rfc3986.abnf", "URI-reference"), dfa.reference("rfc3986.abnf", "query")),
    "uriref_scheme": lambda: scheme_cert(dfa.reference("rfc3986.abnf", "URI-reference"), dfa.reference("rfc3986.abnf", "scheme")),
    # IRI family: the same facts over code points for the RFC 3987 automata
    "iriref_hier": lambda: hier_cert(dfa.reference("rfc3987.abnf", "IRI-reference"), dfa.reference("rfc3987.abnf", "iauthority"), dfa.reference("rfc3987.abnf", "ipath"), a_name="IriRef"),
    "iriref_fragment": lambda: fragment_cert(dfa.reference("rfc3987.abnf", "IRI-reference"), dfa.reference("rfc3987.abnf", "ifragment"), a_name="IriRef"),
    "iriref_query": lambda: query_cert(dfa.reference("rfc3987.abnf", "IRI-reference"), dfa.reference("rfc3987.abnf", "iquery"), a_name="IriRef"),
    "iriref_scheme": lambda: scheme_cert(dfa.reference("rfc3987.abnf", "IRI-reference"), dfa.reference("rfc3987.abnf", "scheme"), a_name="IriRef"),
}


def check_all(workdir, rlimit=600, jobs=5, only=None):
    from concurrent.futures import ThreadPoolExecutor
    os.environ["RUST_MIN_STACK"] = "268435456"
    os.makedirs(workdir, exist_ok=True)
    def one(k):
        src, info = CERTS[k]()
        p = os.path.join(workdir, "comp_%s.rs" % k)
        open(p, "w").write(src)
        v = langlemmas.run_verus(p, rlimit)
        return {"fact": k, "status": "proved" if v["ok"] else ("timeout" if v.get("timeout") else "failed"), "pairs": info["pairs"], "lemmas": info["lemmas"],
                "verified": v.get("verified"), "errors": v.get("errors"), "smt_s": round(v.get("smt_s") or 0, 1), "wall_s": round(v["wall"], 1), "stderr": "" if v["ok"] else v["stderr"][-2500:]}
    with ThreadPoolExecutor(max_workers=jobs) as ex:
        return list(ex.map(one, [k for k in CERTS if not only or k in only]))


def compose_cert(A, SC, AU, PA, QU, FR, a_name="UriRef"):
    """G1b: a text assembled from valid components in fitting contexts is a valid URI reference (converse of the
    component certificates: forward simulation A follows B, closing lemmas between the components)."""
    pts = sorted(set(_points(A, [COLON, SLASH, QUEST, HASH]) + _points(PA)))
    out = []
    s_sc, i_sc, _, _ = gen_component("sc", A, SC, a_name, "Scheme", {0}, [], CSQF, False, {COLON}, converse=True)
    out.append(s_sc)
    s_au, i_au, _, _ = gen_component("au", A, AU, a_name, "Authority", {0}, [(CSQF, COLON, True), (None, SLASH), (None, SLASH)], SQF, True, SQF, emit_a=False, prelude=False, converse=True)
    out.append(s_au)
    hs = set(i_au["cursets"][1]); hs1 = hs - {0}
    au_ok = set(a for a in i_au["end_states"])
    pap = set()
    for a in i_au["end_states"]:
        a1 = A.step(a, SLASH)
        if a1 >= 0:
            pap.add((a1, PA.step(0, SLASH)))
    s_pa, i_pa, _, _ = gen_component("pa", A, PA, a_name, "Path", set(i_au["end_states"]), [], QF, True, QF, emit_a=False, emit_b=True, prelude=False, start_pairs=pap, converse=True)
    out.append(s_pa)
    sp = set()
    for q in hs:
        if q != 0:
            for c in pts:
                if c in SQF:
                    continue
                a1 = A.step(q, c)
                if a1 >= 0:
                    sp.add((a1, PA.step(0, c)))
        a1 = A.step(q, SLASH)
        if a1 >= 0:
            b1 = PA.step(0, SLASH)
            for c in pts:
                if c in SQF:
                    continue
                a2 = A.step(a1, c)
                if a2 >= 0:
                    sp.add((a2, PA.step(b1, c) if b1 >= 0 else -1))
    s_pn, i_pn, _, _ = gen_component("pn", A, PA, a_name, "Path", hs, [], QF, True, QF, emit_a=False, emit_b=False, prelude=False, start_pairs=sp, converse=True)
    out.append(s_pn)
    zs = set()
    for c in pts:
        if c in CSQF:
            continue
        a1 = A.step(0, c)
        if a1 >= 0:
            zs.add((a1, PA.step(0, c)))
    s_pz, i_pz, _, _ = gen_component("pz", A, PA, a_name, "Path", {0}, [], CSQF, True, QF, emit_a=False, emit_b=False, prelude=False, start_pairs=zs, converse=True)
    out.append(s_pz)
    zp = set()
    for (a, b) in product(A, PA, {0}, CSQF, pts, zs):
        a1 = A.step(a, SLASH)
        if a1 >= 0:
            zp.add((a1, PA.step(b, SLASH) if b >= 0 else -1))
    s_py, i_py, _, _ = gen_component("py", A, PA, a_name, "Path", {0}, [], QF, True, QF, emit_a=False, emit_b=False, prelude=False, start_pairs=zp, converse=True)
    out.append(s_py)
    # states at the end of a complete, fitting path
    def okend(pairs_info_name, B, pairs):
        return set(a for a, b in pairs if b >= 0 and b in B.finals)
    pa_pairs = product(A, PA, set(), QF, pts, pap); pn_pairs = product(A, PA, set(), QF, pts, sp)
    pz_pairs = product(A, PA, set(), CSQF, pts, zs); py_pairs = product(A, PA, set(), QF, pts, zp)
    au_pairs = product(A, AU, set(i_au["cursets"][3]), SQF, pts)
    au_okend = okend("au", AU, au_pairs)
    slash1 = set(A.step(q, SLASH) for q in hs) - {-1}
    peok = set(au_okend) | set(hs) | slash1 | okend("pa", PA, pa_pairs) | okend("pn", PA, pn_pairs) | okend("pz", PA, pz_pairs) | okend("py", PA, py_pairs)
    s_qu, i_qu, _, _ = gen_component("qu", A, QU, a_name, "Query", peok, [(None, QUEST)], {HASH}, True, {HASH}, emit_a=False, prelude=False, converse=True)
    out.append(s_qu)
    qu_pairs = product(A, QU, set(i_qu["cursets"][1]), {HASH}, pts)
    qeok = okend("qu", QU, qu_pairs)
    s_fr, i_fr, _, _ = gen_component("fr", A, FR, a_name, "Fragment", peok | qeok, [(None, HASH)], set(), True, set(), emit_a=False, prelude=False, converse=True)
    out.append(s_fr)
    out.append(_set_spec("hs", hs)); out.append(_set_spec("hs1", hs1)); out.append(_set_spec("slash1", slash1)); out.append(_set_spec("peok", peok)); out.append(_set_spec("qeok", qeok))
    src = "\n".join(out)
    src += """
pub open spec fn csqf(c: int) -> bool { c == 35 || c == 47 || c == 58 || c == 63 }
pub open spec fn sqf(c: int) -> bool { c == 35 || c == 47 || c == 63 }
pub open spec fn qf(c: int) -> bool { c == 35 || c == 63 }
// ---- closing lemmas between the components ----
proof fn sc_to_hs1(a: int)
    requires sc_okend(a),
    ensures %(A)s_step(a, 58) >= 0, hs1(%(A)s_step(a, 58)), hs(%(A)s_step(a, 58)),
{ }
proof fn hs_zero()
    ensures hs(0), sc_rel(0, 0), peok(0),
{ }
proof fn au_enter_fwd(q: int)
    requires hs(q),
    ensures %(A)s_step(q, 47) >= 0, %(A)s_step(%(A)s_step(q, 47), 47) >= 0, au_rel(%(A)s_step(%(A)s_step(q, 47), 47), 0),
{ }
proof fn au_to_peok(a: int)
    requires au_okend(a),
    ensures peok(a), %(A)s_step(a, 47) >= 0, pa_rel(%(A)s_step(a, 47), Path_step(0, 47)), Path_step(0, 47) >= 0,
{ }
proof fn hs_to_peok(q: int)
    requires hs(q),
    ensures peok(q), %(A)s_step(q, 47) >= 0, slash1(%(A)s_step(q, 47)), peok(%(A)s_step(q, 47)), Path_step(0, 47) >= 0,
{ }
proof fn pn_first_fwd(q: int, c: int)
    requires hs1(q), !sqf(c), Path_step(0, c) >= 0,
    ensures %(A)s_step(q, c) >= 0, pn_rel(%(A)s_step(q, c), Path_step(0, c)),
{ }
proof fn pn_second_fwd(q: int, c: int)
    requires hs(q), !sqf(c), Path_step(Path_step(0, 47), c) >= 0,
    ensures %(A)s_step(%(A)s_step(q, 47), c) >= 0, pn_rel(%(A)s_step(%(A)s_step(q, 47), c), Path_step(Path_step(0, 47), c)),
{ }
proof fn pz_first_fwd(c: int)
    requires !csqf(c), Path_step(0, c) >= 0,
    ensures %(A)s_step(0, c) >= 0, pz_rel(%(A)s_step(0, c), Path_step(0, c)),
{ }
proof fn py_enter_fwd(a: int, b: int)
    requires pz_rel(a, b), b >= 0, Path_step(b, 47) >= 0,
    ensures %(A)s_step(a, 47) >= 0, py_rel(%(A)s_step(a, 47), Path_step(b, 47)),
{ }
proof fn paths_to_peok(a: int)
    requires pa_okend(a) || pn_okend(a) || pz_okend(a) || py_okend(a),
    ensures peok(a),
{ }
proof fn peok_close(a: int)
    requires peok(a),
    ensures %(A)s_final(a), %(A)s_step(a, 63) >= 0, qu_rel(%(A)s_step(a, 63), 0), %(A)s_step(a, 35) >= 0, fr_rel(%(A)s_step(a, 35), 0),
{ }
proof fn qu_to_qeok(a: int)
    requires qu_okend(a),
    ensures qeok(a),
{ }
proof fn qeok_close(a: int)
    requires qeok(a),
    ensures %(A)s_final(a), %(A)s_step(a, 35) >= 0, fr_rel(%(A)s_step(a, 35), 0),
{ }
proof fn fr_close(a: int)
    requires fr_okend(a),
    ensures %(A)s_final(a),
{ }

/// the path part: from the state at its start (in `hs` without authority, in `au_okend` after one) to a `peok` state at its end
proof fn path_fwd(s: Seq<int>, h: int, ae: int, pe: int, f: int)
    requires 0 <= h <= ae <= pe <= s.len(), %(A)s_at(0, s, ae) >= 0,
        ae > h ==> au_okend(%(A)s_at(0, s, ae)) && (pe == ae || s[ae] == 47),
        ae == h ==> hs(%(A)s_at(0, s, h)) && (h > 0 ==> hs1(%(A)s_at(0, s, h))) && (h == 0 ==> %(A)s_at(0, s, 0) == 0),
        Path_run(0, s.subrange(ae, pe)),
        ae == h ==> !(h + 1 < pe && s[h] == 47 && s[h + 1] == 47),
        (ae == h && h == 0) ==> (0 <= f <= pe && (forall|i: int| 0 <= i < f ==> #[trigger] s[i] != 47 && s[i] != 58) && (f == pe || s[f] == 47)),
    ensures %(A)s_at(0, s, pe) >= 0, peok(%(A)s_at(0, s, pe)),
{
    let p = s.subrange(ae, pe);
    let n = pe - ae;
    let a = %(A)s_at(0, s, ae);
    Path_run_at(0, p);
    assert(p.len() == n);
    if n == 0 {
        if ae > h { au_to_peok(a); } else { hs_to_peok(a); }
    } else {
        let c0 = s[ae];
        assert(p[0] == c0);
        // B alive on the first character
        assert(Path_at(0, p, n) == Path_at(Path_step(0, c0), p.drop_first(), n - 1));
        if Path_step(0, c0) < 0 { Path_at_neg(p.drop_first(), n - 1); }
        pa_nostop_all(0, p, n);
        assert(!qf(c0)) by { assert(!(p[0] == 35 || p[0] == 63)); }
        %(A)s_at_next(0, s, ae);
        if ae > h {
            // after an authority: '/' then the rest
            assert(c0 == 47);
            au_to_peok(a);
            let a1 = %(A)s_step(a, 47);
            let b1 = Path_step(0, 47);
            assert(p.subrange(1, n) =~= s.subrange(ae + 1, pe));
            Path_at_add(0, p, 1, n - 1);
            assert(Path_at(0, p, 1) == b1) by { assert(Path_at(Path_step(0, p[0]), p.drop_first(), 0) == Path_step(0, p[0])); }
            assert(p.skip(1) =~= s.subrange(ae + 1, pe));
            Path_at_prefix(b1, p.skip(1), s.subrange(ae + 1, pe), n - 1);
            assert forall|i: int| ae + 1 <= i < pe implies !(#[trigger] s[i] == 35 || s[i] == 63) by { assert(p[i - ae] == s[i]); assert(!(p[i - ae] == 35 || p[i - ae] == 63)); }
            pa_span(s, ae + 1, pe, a1, b1);
            let ae_ = %(A)s_at(0, s, pe);
            pa_rel_okend(ae_, Path_at(b1, s.subrange(ae + 1, pe), n - 1));
            paths_to_peok(ae_);
        } else if c0 == 47 {
            hs_to_peok(a);
            let a1 = %(A)s_step(a, 47);
            let b1 = Path_step(0, 47);
            if n == 1 {
            } else {
                let c1 = s[h + 1];
                assert(p[1] == c1);
                assert(c1 != 47);
                assert(!(p[1] == 35 || p[1] == 63));
                Path_at_add(0, p, 1, n - 1);
                assert(Path_at(0, p, 1) == b1) by { assert(Path_at(Path_step(0, p[0]), p.drop_first(), 0) == Path_step(0, p[0])); }
                Path_at_add(0, p, 2, n - 2);
                Path_at_next(0, p, 1);
                let b2 = Path_step(b1, c1);
                assert(Path_at(0, p, 2) == b2);
                if b2 < 0 { Path_at_neg(p.skip(2), n - 2); }
                pn_second_fwd(a, c1);
                let a2 = %(A)s_step(a1, c1);
                %(A)s_at_next(0, s, h + 1);
                assert(p.skip(2) =~= s.subrange(h + 2, pe));
                Path_at_prefix(b2, p.skip(2), s.subrange(h + 2, pe), n - 2);
                assert forall|i: int| h + 2 <= i < pe implies !(#[trigger] s[i] == 35 || s[i] == 63) by { assert(p[i - h] == s[i]); assert(!(p[i - h] == 35 || p[i - h] == 63)); }
                pn_span(s, h + 2, pe, a2, b2);
                let e_ = %(A)s_at(0, s, pe);
                pn_rel_okend(e_, Path_at(b2, s.subrange(h + 2, pe), n - 2));
                paths_to_peok(e_);
            }
        } else if h > 0 {
            // after a scheme: rootless path
            pn_first_fwd(a, c0);
            let a1 = %(A)s_step(a, c0);
            let b1 = Path_step(0, c0);
            Path_at_add(0, p, 1, n - 1);
            assert(Path_at(0, p, 1) == b1) by { assert(Path_at(Path_step(0, p[0]), p.drop_first(), 0) == Path_step(0, p[0])); }
            assert(p.skip(1) =~= s.subrange(h + 1, pe));
            Path_at_prefix(b1, p.skip(1), s.subrange(h + 1, pe), n - 1);
            assert forall|i: int| h + 1 <= i < pe implies !(#[trigger] s[i] == 35 || s[i] == 63) by { assert(p[i - h] == s[i]); assert(!(p[i - h] == 35 || p[i - h] == 63)); }
            pn_span(s, h + 1, pe, a1, b1);
            let e_ = %(A)s_at(0, s, pe);
            pn_rel_okend(e_, Path_at(b1, s.subrange(h + 1, pe), n - 1));
            paths_to_peok(e_);
        } else {
            // no scheme, relative path: the first segment (up to the first '/') has no ':'
            assert(f >= 1) by { if f == 0 { assert(s[0] == 47); } }
            assert(c0 != 58) by { assert(s[0] != 58); }
            pz_first_fwd(c0);
            let a1 = %(A)s_step(0, c0);
            let b1 = Path_step(0, c0);
            let k = f;
            assert forall|i: int| 1 <= i < k implies !(#[trigger] s[i] == 35 || s[i] == 47 || s[i] == 58 || s[i] == 63) by {
                assert(p[i] == s[i]); assert(!(p[i] == 35 || p[i] == 63));
                assert(s[i] != 47 && s[i] != 58);
            }
            Path_at_add(0, p, 1, n - 1);
            assert(Path_at(0, p, 1) == b1) by { assert(Path_at(Path_step(0, p[0]), p.drop_first(), 0) == Path_step(0, p[0])); }
            Path_at_add(0, p, k, n - k);
            if Path_at(0, p, k) < 0 { Path_at_neg(p.skip(k), n - k); }
            Path_at_add(0, p, 1, k - 1);
            assert(p.skip(1).subrange(0, k - 1) =~= s.subrange(1, k));
            Path_at_prefix(b1, p.skip(1), s.subrange(1, k), k - 1);
            pz_span(s, 1, k, a1, b1);
            let ak = %(A)s_at(0, s, k);
            let bk = Path_at(b1, s.subrange(1, k), k - 1);
            assert(bk == Path_at(0, p, k));
            if k == pe {
                pz_rel_okend(ak, bk);
                paths_to_peok(ak);
            } else {
                // '/' at k, then the rest
                Path_at_next(0, p, k);
                assert(p[k] == 47);
                let bk1 = Path_step(bk, 47);
                Path_at_add(0, p, k + 1, n - k - 1);
                if bk1 < 0 { Path_at_neg(p.skip(k + 1), n - k - 1); }
                py_enter_fwd(ak, bk);
                %(A)s_at_next(0, s, k);
                let ak1 = %(A)s_step(ak, 47);
                assert(p.skip(k + 1) =~= s.subrange(k + 1, pe));
                Path_at_prefix(bk1, p.skip(k + 1), s.subrange(k + 1, pe), n - k - 1);
                assert forall|i: int| k + 1 <= i < pe implies !(#[trigger] s[i] == 35 || s[i] == 63) by { assert(p[i] == s[i]); assert(!(p[i] == 35 || p[i] == 63)); }
                py_span(s, k + 1, pe, ak1, bk1);
                let e_ = %(A)s_at(0, s, pe);
                py_rel_okend(e_, Path_at(bk1, s.subrange(k + 1, pe), n - k - 1));
                paths_to_peok(e_);
            }
        }
    }
}
/// FACT (converse of the component certificates): a text whose App. B pieces are valid component values in fitting
/// contexts is a valid %(A)s. k: end of the scheme (h == k + 1) or unused (h == 0); ae == h: no authority;
/// f (used only without scheme and authority): end of the first path segment, which must not contain ':'.
pub proof fn compose(s: Seq<int>, k: int, h: int, ae: int, pe: int, qe: int, f: int)
    requires
        h == 0 || (0 <= k && h == k + 1 && h <= s.len() && s[k] == 58 && Scheme_run(0, s.subrange(0, k))),
        0 <= h <= ae <= pe <= qe <= s.len(),
        ae == h || (h + 2 <= ae && s[h] == 47 && s[h + 1] == 47 && Authority_run(0, s.subrange(h + 2, ae))),
        Path_run(0, s.subrange(ae, pe)),
        ae > h ==> (pe == ae || s[ae] == 47),
        ae == h ==> !(h + 1 < pe && s[h] == 47 && s[h + 1] == 47),
        (ae == h && h == 0) ==> (0 <= f <= pe && (forall|i: int| 0 <= i < f ==> #[trigger] s[i] != 47 && s[i] != 58) && (f == pe || s[f] == 47)),
        qe == pe || (s[pe] == 63 && Query_run(0, s.subrange(pe + 1, qe))),
        qe == s.len() || (s[qe] == 35 && Fragment_run(0, s.subrange(qe + 1, s.len() as int))),
    ensures %(A)s_run(0, s),
{
    let n = s.len() as int;
    hs_zero();
    // 1. scheme
    if h > 0 {
        let sub = s.subrange(0, k);
        Scheme_run_at(0, sub);
        sc_nostop_all(0, sub, k);
        assert forall|i: int| 0 <= i < k implies !(#[trigger] s[i] == 35 || s[i] == 47 || s[i] == 58 || s[i] == 63) by { assert(sub[i] == s[i]); assert(!(sub[i] == 35 || sub[i] == 47 || sub[i] == 58 || sub[i] == 63)); }
        sc_span(s, 0, k, 0, 0);
        let a = %(A)s_at(0, s, k);
        sc_rel_okend(a, Scheme_at(0, sub, k));
        sc_to_hs1(a);
        %(A)s_at_next(0, s, k);
    }
    let qh = %(A)s_at(0, s, h);
    assert(hs(qh));
    // 2. authority
    if ae > h {
        au_enter_fwd(qh);
        %(A)s_at_next(0, s, h);
        %(A)s_at_next(0, s, h + 1);
        let a2 = %(A)s_at(0, s, h + 2);
        let sub = s.subrange(h + 2, ae);
        Authority_run_at(0, sub);
        au_nostop_all(0, sub, ae - h - 2);
        assert forall|i: int| h + 2 <= i < ae implies !(#[trigger] s[i] == 35 || s[i] == 47 || s[i] == 63) by { assert(sub[i - h - 2] == s[i]); assert(!(sub[i - h - 2] == 35 || sub[i - h - 2] == 47 || sub[i - h - 2] == 63)); }
        au_span(s, h + 2, ae, a2, 0);
        au_rel_okend(%(A)s_at(0, s, ae), Authority_at(0, sub, ae - h - 2));
    }
    // 3. path
    path_fwd(s, h, ae, pe, f);
    let ap = %(A)s_at(0, s, pe);
    peok_close(ap);
    // 4. query
    if qe > pe {
        %(A)s_at_next(0, s, pe);
        let a1 = %(A)s_step(ap, 63);
        let sub = s.subrange(pe + 1, qe);
        Query_run_at(0, sub);
        qu_nostop_all(0, sub, qe - pe - 1);
        assert forall|i: int| pe + 1 <= i < qe implies !(#[trigger] s[i] == 35) by { assert(sub[i - pe - 1] == s[i]); assert(!(sub[i - pe - 1] == 35)); }
        qu_span(s, pe + 1, qe, a1, 0);
        qu_rel_okend(%(A)s_at(0, s, qe), Query_at(0, sub, qe - pe - 1));
        qu_to_qeok(%(A)s_at(0, s, qe));
        qeok_close(%(A)s_at(0, s, qe));
    }
    let aq = %(A)s_at(0, s, qe);
    assert(%(A)s_final(aq) && %(A)s_step(aq, 35) >= 0 && fr_rel(%(A)s_step(aq, 35), 0));
    // 5. fragment
    if qe < n {
        %(A)s_at_next(0, s, qe);
        let a1 = %(A)s_step(aq, 35);
        let sub = s.subrange(qe + 1, n);
        Fragment_run_at(0, sub);
        fr_span(s, qe + 1, n, a1, 0);
        fr_rel_okend(%(A)s_at(0, s, n), Fragment_at(0, sub, n - qe - 1));
        fr_close(%(A)s_at(0, s, n));
    }
    %(A)s_at_run(0, s);
}
} // verus!
fn main() {}
""" % {"A": a_name}
    infos = [i_sc, i_au, i_pa, i_pn, i_pz, i_py, i_qu, i_fr]
    return src, {"pairs": sum(i["pairs"] for i in infos), "lemmas": sum(i["lemmas"] for i in infos) + 20}


CERTS["uriref_compose"] = lambda: compose_cert(dfa.reference("rfc3986.abnf", "URI-reference"), dfa.reference("rfc3986.abnf", "scheme"), dfa.reference("rfc3986.abnf", "authority"),
                                               dfa.reference("rfc3986.abnf", "path"), dfa.reference("rfc3986.abnf", "query"), dfa.reference("rfc3986.abnf", "fragment"))


def path_prefix_cert(PA, b_name="Path"):
    """the three disambiguating prefixes "/", "/." and "./" keep a path a path"""
    src = PRELUDE + "// %s: %d states\n" % (b_name, PA.n) + dfa._step_spec(b_name, PA) + "\n" + RUN.format(n=b_name) + """
/// FACT: prefixing a valid path with "/", "/." or "./" gives a valid path
pub proof fn comp_path_prefix(p: Seq<int>)
    requires %(B)s_run(0, p),
    ensures %(B)s_run(0, seq![47int] + p), %(B)s_run(0, seq![47int, 46int] + p), %(B)s_run(0, seq![46int, 47int] + p),
{
    let a = seq![47int] + p;
    assert(a[0] == 47); assert(a.drop_first() =~= p);
    assert(%(B)s_step(0, 47) == 0);
    let b = seq![47int, 46int] + p;
    assert(b[0] == 47); assert(b.drop_first()[0] == 46); assert(b.drop_first().drop_first() =~= p);
    assert(%(B)s_step(0, 46) == 0);
    assert(%(B)s_run(0, b.drop_first()));
    let c = seq![46int, 47int] + p;
    assert(c[0] == 46); assert(c.drop_first()[0] == 47); assert(c.drop_first().drop_first() =~= p);
    assert(%(B)s_run(0, c.drop_first()));
}
} // verus!
fn main() {}
""" % {"B": b_name}
    return src, {"pairs": 0, "lemmas": 1}


CERTS["uri_path_prefix"] = lambda: path_prefix_cert(dfa.reference("rfc3986.abnf", "path"))


def path_algebra_cert(PA, SG, b_name="Path", s_name="Segment"):
    """closure facts about the path language used by the path edits: concatenation, cutting at a '/', segments are paths"""
    assert PA.finals == {0} and PA.step(0, SLASH) == 0
    others = [q for q in range(PA.n) if q != 0]
    src = PRELUDE + "// %s: %d states\n" % (b_name, PA.n) + dfa._step_spec(b_name, PA) + "\n" + RUN.format(n=b_name)
    src += "// %s: %d states\n" % (s_name, SG.n) + dfa._step_spec(s_name, SG) + "\n" + RUN.format(n=s_name)
    # segment inclusion: product pairs
    pts = sorted(set(_points(PA) + _points(SG)))
    pairs = set([(0, 0)])
    dq = deque(pairs)
    while dq:
        a, b = dq.popleft()
        for c in pts:
            na = SG.step(a, c)
            if na < 0:
                continue
            nb = PA.step(b, c) if b >= 0 else -1
            if (na, nb) not in pairs:
                pairs.add((na, nb)); dq.append((na, nb))
    rel, by = _rel_spec("sp_rel", pairs)
    pairs2 = set([(0, 0)])
    dq = deque(pairs2)
    while dq:
        a, b = dq.popleft()
        for c in pts:
            if c == SLASH:
                continue
            na = PA.step(a, c)
            if na < 0:
                continue
            nb = SG.step(b, c) if b >= 0 else -1
            if (na, nb) not in pairs2:
                pairs2.add((na, nb)); dq.append((na, nb))
    rel2, _ = _rel_spec("ps_rel", pairs2)
    src += rel + """
proof fn sp_step(a: int, b: int, c: int)
    requires sp_rel(a, b), %(S)s_step(a, c) >= 0,
    ensures sp_rel(%(S)s_step(a, c), if b >= 0 { %(B)s_step(b, c) } else { -1int }),
{ }
proof fn sp_end(a: int, b: int)
    requires sp_rel(a, b), %(S)s_final(a),
    ensures b >= 0 && %(B)s_final(b),
{ }
proof fn sp_ind(a: int, b: int, t: Seq<int>)
    requires sp_rel(a, b), %(S)s_run(a, t),
    ensures b >= 0 && %(B)s_run(b, t),
    decreases t.len()
{
    if t.len() == 0 { sp_end(a, b); } else {
        let c = t[0];
        if %(S)s_step(a, c) < 0 { %(S)s_dead(t.drop_first()); }
        sp_step(a, b, c);
        sp_ind(%(S)s_step(a, c), if b >= 0 { %(B)s_step(b, c) } else { -1int }, t.drop_first());
    }
}
/// FACT: a valid segment is a valid path
pub proof fn comp_segment_is_path(x: Seq<int>)
    requires %(S)s_run(0, x),
    ensures %(B)s_run(0, x),
{
    sp_ind(0, 0, x);
}
// a path without '/' is a segment: product over the characters other than '/'
%(PS_REL)s
proof fn ps_step(a: int, b: int, c: int)
    requires ps_rel(a, b), c != 47, %(B)s_step(a, c) >= 0,
    ensures ps_rel(%(B)s_step(a, c), if b >= 0 { %(S)s_step(b, c) } else { -1int }),
{ }
proof fn ps_end(a: int, b: int)
    requires ps_rel(a, b), %(B)s_final(a),
    ensures b >= 0 && %(S)s_final(b),
{ }
proof fn ps_ind(a: int, b: int, t: Seq<int>)
    requires ps_rel(a, b), %(B)s_run(a, t), forall|i: int| 0 <= i < t.len() ==> #[trigger] t[i] != 47,
    ensures b >= 0 && %(S)s_run(b, t),
    decreases t.len()
{
    if t.len() == 0 { ps_end(a, b); } else {
        let c = t[0];
        if %(B)s_step(a, c) < 0 { %(B)s_dead(t.drop_first()); }
        ps_step(a, b, c);
        assert forall|i: int| 0 <= i < t.drop_first().len() implies #[trigger] t.drop_first()[i] != 47 by { assert(t.drop_first()[i] == t[i + 1]); }
        ps_ind(%(B)s_step(a, c), if b >= 0 { %(S)s_step(b, c) } else { -1int }, t.drop_first());
    }
}
/// FACT: a valid path without '/' is a valid segment
pub proof fn comp_slashfree_path_is_segment(x: Seq<int>)
    requires %(B)s_run(0, x), forall|i: int| 0 <= i < x.len() ==> #[trigger] x[i] != 47,
    ensures %(S)s_run(0, x),
{
    ps_ind(0, 0, x);
}
proof fn only_zero_final(q: int)
    requires q >= 0, %(B)s_final(q) || %(B)s_step(q, 47) >= 0,
    ensures q == 0,
{ }
/// FACT: the concatenation of two valid paths is a valid path
pub proof fn comp_path_concat(u: Seq<int>, v: Seq<int>)
    requires %(B)s_run(0, u), %(B)s_run(0, v),
    ensures %(B)s_run(0, u + v),
{
    let w = u + v;
    %(B)s_run_at(0, u);
    only_zero_final(%(B)s_at(0, u, u.len() as int));
    %(B)s_split(0, w, u.len() as int);
    assert forall|i: int| 0 <= i < u.len() implies u[i] == w[i] by { }
    %(B)s_at_prefix(0, u, w, u.len() as int);
    assert(w.skip(u.len() as int) =~= v);
}
/// FACT: a valid path cut at its end, or right before a '/', gives two valid paths
pub proof fn comp_path_split(u: Seq<int>, v: Seq<int>)
    requires %(B)s_run(0, u + v), v.len() == 0 || v[0] == 47,
    ensures %(B)s_run(0, u), %(B)s_run(0, v),
{
    let w = u + v;
    %(B)s_split(0, w, u.len() as int);
    assert(w.skip(u.len() as int) =~= v);
    let q = %(B)s_at(0, w, u.len() as int);
    if q < 0 { %(B)s_dead(v); }
    if v.len() > 0 { if %(B)s_step(q, 47) < 0 { %(B)s_dead(v.drop_first()); } }
    only_zero_final(q);
    assert forall|i: int| 0 <= i < u.len() implies u[i] == w[i] by { }
    %(B)s_at_prefix(0, u, w, u.len() as int);
    %(B)s_at_run(0, u);
}
/// FACT: a valid path cut right after a '/' gives two valid paths
pub proof fn comp_path_split_after_slash(u: Seq<int>, v: Seq<int>)
    requires %(B)s_run(0, u + v), u.len() > 0, u[u.len() - 1] == 47,
    ensures %(B)s_run(0, u), %(B)s_run(0, v),
{
    let w = u + v;
    let m = u.len() as int;
    %(B)s_split(0, w, m - 1);
    let q = %(B)s_at(0, w, m - 1);
    if q < 0 { %(B)s_dead(w.skip(m - 1)); }
    let t = w.skip(m - 1);
    assert(t[0] == 47);
    if %(B)s_step(q, 47) < 0 { %(B)s_dead(t.drop_first()); }
    only_zero_final(q);
    assert(%(B)s_step(0, 47) == 0);
    %(B)s_at_next(0, w, m - 1);
    %(B)s_split(0, w, m);
    assert(w.skip(m) =~= v);
    assert forall|i: int| 0 <= i < m implies u[i] == w[i] by { }
    %(B)s_at_prefix(0, u, w, m);
    %(B)s_at_run(0, u);
}
/// FACT: what follows a '/' inside a valid path is a valid path
pub proof fn comp_path_strip_slash(r: Seq<int>)
    requires %(B)s_run(0, seq![47int] + r),
    ensures %(B)s_run(0, r),
{
    let w = seq![47int] + r;
    assert(w[0] == 47); assert(w.drop_first() =~= r);
    assert(%(B)s_step(0, 47) == 0);
}
/// FACT: the constant path texts the edits insert
pub proof fn comp_path_consts()
    ensures %(B)s_run(0, Seq::<int>::empty()), %(B)s_run(0, seq![47int]), %(B)s_run(0, seq![46int]), %(B)s_run(0, seq![46int, 46int]),
        %(B)s_run(0, seq![46int, 47int]), %(B)s_run(0, seq![47int, 47int]), %(S)s_run(0, seq![46int, 46int]), %(S)s_run(0, Seq::<int>::empty()),
{
    assert(%(B)s_step(0, 47) == 0 && %(B)s_step(0, 46) == 0);
    let z = Seq::<int>::empty();
    assert(%(B)s_run(0, z));
    let a = seq![47int]; assert(a.drop_first() =~= z); assert(a[0] == 47);
    assert(%(B)s_run(0, a));
    let b = seq![46int]; assert(b.drop_first() =~= z); assert(b[0] == 46);
    assert(%(B)s_run(0, b));
    let c = seq![46int, 46int]; assert(c.drop_first() =~= b); assert(c[0] == 46);
    let d = seq![46int, 47int]; assert(d.drop_first() =~= a); assert(d[0] == 46);
    let e = seq![47int, 47int]; assert(e.drop_first() =~= a); assert(e[0] == 47);
    assert(%(S)s_run(0, z));
    assert(%(S)s_step(0, 46) >= 0 && %(S)s_final(%(S)s_step(0, 46)) && %(S)s_step(%(S)s_step(0, 46), 46) >= 0 && %(S)s_final(%(S)s_step(%(S)s_step(0, 46), 46)));
    assert(%(S)s_run(%(S)s_step(%(S)s_step(0, 46), 46), z));
    assert(%(S)s_run(%(S)s_step(0, 46), b));
}
} // verus!
fn main() {}
""" % {"B": b_name, "S": s_name, "PS_REL": rel2}
    return src, {"pairs": len(pairs) + len(pairs2), "lemmas": 13}


CERTS["uri_path_algebra"] = lambda: path_algebra_cert(dfa.reference("rfc3986.abnf", "path"), dfa.reference("rfc3986.abnf", "segment"))


AT, LB, RB = 64, 91, 93


def authority_cert(A, UI, HO, PO, a_name="Authority"):
    """G3a: user info, host and port of a valid authority (RFC 3986 3.2 decomposition) are valid values of their types"""
    pts = sorted(set(_points(A, [COLON, AT, LB, RB]) + _points(UI) + _points(HO) + _points(PO)))
    s_ui, i_ui, _, _ = gen_component("ui", A, UI, a_name, "UserInfo", {0}, [], {AT}, False, {AT})
    # states where the host starts: after the '@' that ends a user info, or the initial state
    pre = closure(A, {0}, {AT}, pts)
    hs1 = set(A.step(q, AT) for q in pre) - {-1}
    hs = hs1 | {0}
    s_hn, i_hn, _, _ = gen_component("hn", A, HO, a_name, "Host", hs, [], {COLON, AT, LB}, True, {COLON}, emit_a=False, prelude=False)
    hbp = set()
    for q in hs:
        a1 = A.step(q, LB)
        if a1 >= 0:
            hbp.add((a1, HO.step(0, LB)))
    s_hb, i_hb, _, _ = gen_component("hb", A, HO, a_name, "Host", hs, [], {RB}, False, set(), emit_a=False, emit_b=False, prelude=False, start_pairs=hbp)
    hn_end = set(i_hn["end_states"]); hb_end = set(i_hb["end_states"])
    ps = set(A.step(a, COLON) for a in hn_end) | set(A.step(A.step(a, RB), COLON) if A.step(a, RB) >= 0 else -1 for a in hb_end)
    ps.discard(-1)
    s_po, i_po, _, _ = gen_component("po", A, PO, a_name, "Port", ps, [], {AT}, True, set(), emit_a=False, prelude=False)
    src = "\n".join([s_ui, ok_run_lemma("ui", "UserInfo", {AT}, False, {AT}), s_hn, ok_run_lemma("hn", "Host", {COLON, AT, LB}, True, {COLON}), s_hb, s_po, ok_run_lemma("po", "Port", {AT}, True, set()),
                     _set_spec("pre_at", pre), _set_spec("hs", hs)])
    pre_closure = "\n".join("proof fn pre_c%d(q: int, c: int)\n    requires q == %d, c != 64, %s_step(q, c) >= 0,\n    ensures pre_at(%s_step(q, c)),\n{ }" % (q, q, a_name, a_name) for q in sorted(pre))
    pre_disp = "\n".join("            %s q == %d { pre_c%d(q, s[0]); }" % ("if" if j == 0 else "else if", q, q) for j, q in enumerate(sorted(pre)))
    src += "\n" + pre_closure + """
proof fn pre_scan(q: int, s: Seq<int>, n: int)
    requires pre_at(q), 0 <= n <= s.len(), forall|i: int| 0 <= i < n ==> #[trigger] s[i] != 64,
    ensures %(A)s_at(q, s, n) < 0 || pre_at(%(A)s_at(q, s, n)),
    decreases n
{
    if n > 0 {
        let c = s[0];
        if %(A)s_step(q, c) >= 0 {
%(pre_disp)s
            assert forall|i: int| 0 <= i < n - 1 implies #[trigger] s.drop_first()[i] != 64 by { assert(s.drop_first()[i] == s[i + 1]); }
            pre_scan(%(A)s_step(q, c), s.drop_first(), n - 1);
            assert(%(A)s_at(q, s, n) == %(A)s_at(%(A)s_step(q, c), s.drop_first(), n - 1));
        } else {
            assert(%(A)s_at(q, s, n) == %(A)s_at(%(A)s_step(q, c), s.drop_first(), n - 1));
            %(A)s_at_neg(s.drop_first(), n - 1);
        }
    }
}
proof fn hs_enter(q: int)
    requires pre_at(q), %(A)s_step(q, 64) >= 0,
    ensures hs(%(A)s_step(q, 64)),
{ }
proof fn hs_zero()
    ensures hs(0), pre_at(0), ui_rel(0, 0),
{ }
proof fn hn_start(q: int)
    requires hs(q),
    ensures hn_rel(q, 0),
{ }
proof fn hb_start(q: int)
    requires hs(q), %(A)s_step(q, 91) >= 0,
    ensures hb_rel(%(A)s_step(q, 91), Host_step(0, 91)),
{ }
proof fn hb_close(a: int, b: int)
    requires hb_rel(a, b), %(A)s_step(a, 93) >= 0,
    ensures b >= 0, Host_step(b, 93) >= 0, Host_final(Host_step(b, 93)),
{ }
proof fn po_from_hn(a: int)
    requires hn_endst(a), %(A)s_step(a, 58) >= 0,
    ensures po_rel(%(A)s_step(a, 58), 0),
{ }
proof fn po_from_hb(a: int)
    requires hb_endst(a), %(A)s_step(a, 93) >= 0, %(A)s_step(%(A)s_step(a, 93), 58) >= 0,
    ensures po_rel(%(A)s_step(%(A)s_step(a, 93), 58), 0),
{ }
/// the host starts at hs: at 0 when the text has no '@', else right after the first '@'
pub open spec fn host_start(s: Seq<int>, hs_: int) -> bool {
    (hs_ == 0 && forall|i: int| 0 <= i < s.len() ==> #[trigger] s[i] != 64)
    || (0 < hs_ <= s.len() && s[hs_ - 1] == 64 && forall|i: int| 0 <= i < hs_ - 1 ==> #[trigger] s[i] != 64)
}
proof fn host_start_state(s: Seq<int>, hs_: int)
    requires host_start(s, hs_), 0 <= hs_ <= s.len(),
    ensures %(A)s_at(0, s, hs_) < 0 || hs(%(A)s_at(0, s, hs_)),
{
    hs_zero();
    if hs_ > 0 {
        pre_scan(0, s, hs_ - 1);
        let q = %(A)s_at(0, s, hs_ - 1);
        if q >= 0 { %(A)s_at_next(0, s, hs_ - 1); if %(A)s_step(q, 64) >= 0 { hs_enter(q); } }
        else { %(A)s_at_add(0, s, hs_ - 1, 1); %(A)s_at_neg(s.skip(hs_ - 1), 1); }
    }
}
/// FACT: the text before the first '@' of a valid authority is a valid user info
pub proof fn comp_userinfo(s: Seq<int>, k: int)
    requires %(A)s_run(0, s), 0 <= k < s.len(), s[k] == 64, forall|i: int| 0 <= i < k ==> #[trigger] s[i] != 64,
    ensures UserInfo_run(0, s.subrange(0, k)),
{
    hs_zero();
    ui_mid(0, 0, s);
    assert forall|i: int| 0 <= i < k implies !(#[trigger] s[i] == 64) by { }
    ui_ok_run(0, s, k);
}
/// FACT: a host that does not start with '[' extends to the first ':' (or the end) and is a valid host
pub proof fn comp_host_plain(s: Seq<int>, hs_: int, e: int)
    requires %(A)s_run(0, s), host_start(s, hs_), 0 <= hs_ <= e <= s.len(),
        forall|i: int| hs_ <= i < e ==> #[trigger] s[i] != 58 && s[i] != 64 && s[i] != 91, e == s.len() || s[e] == 58,
    ensures Host_run(0, s.subrange(hs_, e)),
{
    host_start_state(s, hs_);
    let q = %(A)s_at(0, s, hs_);
    %(A)s_split(0, s, hs_);
    if q < 0 { %(A)s_dead(s.skip(hs_)); }
    hn_start(q);
    let r = s.skip(hs_);
    hn_mid(q, 0, r);
    assert forall|i: int| 0 <= i < e - hs_ implies !(#[trigger] r[i] == 58 || r[i] == 64 || r[i] == 91) by { assert(r[i] == s[i + hs_]); }
    if e < s.len() { assert(r[e - hs_] == s[e]); }
    hn_ok_run(0, r, e - hs_);
    assert(r.subrange(0, e - hs_) =~= s.subrange(hs_, e));
}
/// FACT: a host that starts with '[' extends to the first ']' (inclusive) and is a valid host
pub proof fn comp_host_bracket(s: Seq<int>, hs_: int, rb: int)
    requires %(A)s_run(0, s), host_start(s, hs_), 0 <= hs_ < rb < s.len(), s[hs_] == 91, s[rb] == 93,
        forall|i: int| hs_ <= i < rb ==> #[trigger] s[i] != 93,
    ensures Host_run(0, s.subrange(hs_, rb + 1)),
{
    host_start_state(s, hs_);
    let q = %(A)s_at(0, s, hs_);
    %(A)s_split(0, s, hs_);
    if q < 0 { %(A)s_dead(s.skip(hs_)); }
    let r = s.skip(hs_);
    assert(r[0] == 91);
    let a1 = %(A)s_step(q, 91);
    if a1 < 0 { %(A)s_dead(r.drop_first()); }
    hb_start(q);
    let b1 = Host_step(0, 91);
    let r1 = r.drop_first();
    assert(r1 =~= s.skip(hs_ + 1));
    let n = rb - hs_ - 1;
    assert forall|i: int| 0 <= i < n implies !(#[trigger] r1[i] == 93) by { assert(r1[i] == s[i + hs_ + 1]); }
    hb_track(a1, b1, r1, n);
    %(A)s_split(a1, r1, n);
    let a = %(A)s_at(a1, r1, n);
    let b = Host_at(b1, r1, n);
    if a < 0 { %(A)s_dead(r1.skip(n)); }
    let u = r1.skip(n);
    assert(u[0] == s[rb]);
    if %(A)s_step(a, 93) < 0 { %(A)s_dead(u.drop_first()); }
    hb_close(a, b);
    // assemble: host text h = '[' . r1[0..n] . ']'
    let h = s.subrange(hs_, rb + 1);
    assert(h[0] == 91);
    let h1 = h.drop_first();
    assert forall|i: int| 0 <= i < n implies h1[i] == r1[i] by { }
    Host_at_prefix(b1, h1, r1, n);
    Host_at_next(b1, h1, n);
    assert(h1[n] == 93);
    assert(h1.len() == n + 1);
    Host_at_run(b1, h1);
}
/// FACT: what follows the ':' after the host of a valid authority is a valid port
pub proof fn comp_port(s: Seq<int>, hs_: int, he: int, bracket: bool)
    requires %(A)s_run(0, s), host_start(s, hs_), 0 <= hs_ <= he < s.len(), s[he] == 58,
        forall|i: int| he < i < s.len() ==> #[trigger] s[i] != 64,
        !bracket ==> forall|i: int| hs_ <= i < he ==> #[trigger] s[i] != 58 && s[i] != 64 && s[i] != 91,
        bracket ==> hs_ < he - 1 && s[hs_] == 91 && s[he - 1] == 93 && forall|i: int| hs_ <= i < he - 1 ==> #[trigger] s[i] != 93,
    ensures Port_run(0, s.subrange(he + 1, s.len() as int)),
{
    host_start_state(s, hs_);
    let q = %(A)s_at(0, s, hs_);
    %(A)s_split(0, s, hs_);
    if q < 0 { %(A)s_dead(s.skip(hs_)); }
    let r = s.skip(hs_);
    %(A)s_split(0, s, he);
    %(A)s_at_add(0, s, hs_, he - hs_);
    let ae = %(A)s_at(0, s, he);
    if ae < 0 { %(A)s_dead(s.skip(he)); }
    let t = s.skip(he);
    assert(t[0] == 58);
    let ap = %(A)s_step(ae, 58);
    if ap < 0 { %(A)s_dead(t.drop_first()); }
    if !bracket {
        hn_start(q);
        assert forall|i: int| 0 <= i < he - hs_ implies !(#[trigger] r[i] == 58 || r[i] == 64 || r[i] == 91) by { assert(r[i] == s[i + hs_]); }
        hn_track(q, 0, r, he - hs_);
        hn_rel_endst(ae, Host_at(0, r, he - hs_));
        po_from_hn(ae);
    } else {
        assert(r[0] == 91);
        let a1 = %(A)s_step(q, 91);
        %(A)s_at_next(0, s, hs_);
        if a1 < 0 { %(A)s_at_add(0, s, hs_ + 1, he - hs_ - 1); %(A)s_at_neg(s.skip(hs_ + 1), he - hs_ - 1); }
        hb_start(q);
        let r1 = s.skip(hs_ + 1);
        let n = he - 1 - hs_ - 1;
        assert forall|i: int| 0 <= i < n implies !(#[trigger] r1[i] == 93) by { assert(r1[i] == s[i + hs_ + 1]); }
        hb_track(a1, Host_step(0, 91), r1, n);
        %(A)s_at_add(0, s, hs_ + 1, n);
        let arb = %(A)s_at(0, s, he - 1);
        if arb < 0 { %(A)s_at_add(0, s, he - 1, 1); %(A)s_at_neg(s.skip(he - 1), 1); }
        hb_rel_endst(arb, Host_at(Host_step(0, 91), r1, n));
        %(A)s_at_next(0, s, he - 1);
        po_from_hb(arb);
    }
    let rest = s.skip(he + 1);
    assert(t.drop_first() =~= rest);
    po_mid(ap, 0, rest);
    assert forall|i: int| 0 <= i < rest.len() implies !(#[trigger] rest[i] == 64) by { assert(rest[i] == s[i + he + 1]); }
    po_ok_run(0, rest, rest.len() as int);
    assert(rest.subrange(0, rest.len() as int) =~= s.subrange(he + 1, s.len() as int));
}
} // verus!
fn main() {}
""" % {"A": a_name, "pre_disp": pre_disp}
    infos = [i_ui, i_hn, i_hb, i_po]
    return src, {"pairs": sum(i["pairs"] for i in infos), "lemmas": sum(i["lemmas"] for i in infos) + len(pre) + 14}


CERTS["uri_authority"] = lambda: authority_cert(dfa.reference("rfc3986.abnf", "authority"), dfa.reference("rfc3986.abnf", "userinfo"), dfa.reference("rfc3986.abnf", "host"), dfa.reference("rfc3986.abnf", "port"))


def authority_compose_cert(A, UI, HO, PO, a_name="Authority"):
    """G3b: [userinfo '@'] host [':' port] assembled from valid parts is a valid authority"""
    pts = sorted(set(_points(A, [COLON, AT, LB, RB]) + _points(UI) + _points(HO) + _points(PO)))
    s_ui, i_ui, _, _ = gen_component("ui", A, UI, a_name, "UserInfo", {0}, [], {AT}, False, {AT}, converse=True)
    ui_pairs = product(A, UI, {0}, {AT}, pts)
    ui_ok = set(a for a, b in ui_pairs if b >= 0 and b in UI.finals)
    hs = set(A.step(a, AT) for a in ui_ok) | {0}
    hs.discard(-1)
    s_hn, i_hn, _, _ = gen_component("hn", A, HO, a_name, "Host", hs, [], {COLON, AT, LB}, True, {COLON}, emit_a=False, prelude=False, converse=True)
    hbp = set()
    for q in hs:
        a1 = A.step(q, LB)
        if a1 >= 0:
            hbp.add((a1, HO.step(0, LB)))
    s_hb, i_hb, _, _ = gen_component("hb", A, HO, a_name, "Host", hs, [], {RB}, False, set(), emit_a=False, emit_b=False, prelude=False, start_pairs=hbp, converse=True)
    hn_pairs = product(A, HO, hs, {COLON, AT, LB}, pts)
    hb_pairs = product(A, HO, set(), {RB}, pts, hbp)
    hn_ok = set(a for a, b in hn_pairs if b >= 0 and b in HO.finals)
    hb_ok = set(A.step(a, RB) for a, b in hb_pairs if b >= 0 and HO.step(b, RB) >= 0 and HO.step(b, RB) in HO.finals)
    hb_ok.discard(-1)
    heok = hn_ok | hb_ok
    ps = set(A.step(a, COLON) for a in heok)
    ps.discard(-1)
    s_po, i_po, _, _ = gen_component("po", A, PO, a_name, "Port", ps, [], {AT}, True, set(), emit_a=False, prelude=False, converse=True)
    # shape of a bracketed host: '[' ... ']' with the only ']' at the end
    br_in = closure(HO, {HO.step(0, LB)}, {RB}, pts) if HO.step(0, LB) >= 0 else set()
    br_closure = "\n".join("proof fn br_c%d(q: int, c: int)\n    requires q == %d, c != 93, Host_step(q, c) >= 0,\n    ensures br_in(Host_step(q, c)),\n{ }" % (q, q) for q in sorted(br_in))
    br_disp = "\n".join("            %s q == %d { br_c%d(q, t[0]); }" % ("if" if j == 0 else "else if", q, q) for j, q in enumerate(sorted(br_in)))
    src = "\n".join([s_ui, s_hn, s_hb, s_po, _set_spec("hs", hs), _set_spec("heok", heok), _set_spec("br_in", br_in)])
    src += "\n" + br_closure + """
proof fn br_after(q: int, c: int)
    requires br_in(q), Host_step(q, 93) >= 0,
    ensures Host_step(Host_step(q, 93), c) < 0,
{ }
/// inside the brackets: every character before the end is not ']' ... the first ']' ends the text
proof fn br_scan(q: int, t: Seq<int>)
    requires br_in(q), Host_run(q, t),
    ensures t.len() >= 1, t[t.len() - 1] == 93, forall|i: int| 0 <= i < t.len() - 1 ==> #[trigger] t[i] != 93,
    decreases t.len()
{
    if t.len() == 0 {
        assert(!Host_final(q)) by { br_not_final(q); }
    } else {
        let c = t[0];
        if Host_step(q, c) < 0 { Host_dead(t.drop_first()); }
        if c == 93 {
            let r = t.drop_first();
            assert(Host_run(q, t) == Host_run(Host_step(q, 93), r));
            if r.len() > 0 {
                br_after(q, r[0]);
                assert(Host_run(Host_step(q, 93), r) == Host_run(Host_step(Host_step(q, 93), r[0]), r.drop_first()));
                assert(!Host_run(Host_step(Host_step(q, 93), r[0]), r.drop_first()));
            }
            assert(r.len() == 0);
            assert(t.len() == 1);
        } else {
%(br_disp)s
            br_scan(Host_step(q, c), t.drop_first());
            assert forall|i: int| 0 <= i < t.len() - 1 implies #[trigger] t[i] != 93 by { if i > 0 { assert(t[i] == t.drop_first()[i - 1]); } }
            assert(t[t.len() - 1] == t.drop_first()[t.len() - 2]);
        }
    }
}
proof fn br_not_final(q: int)
    requires br_in(q),
    ensures !Host_final(q),
{ }
/// FACT: a valid host that starts with '[' ends with its only ']'
pub proof fn comp_host_bracket_shape(h: Seq<int>)
    requires Host_run(0, h), h.len() > 0, h[0] == 91,
    ensures h.len() >= 2, h[h.len() - 1] == 93, forall|i: int| 0 <= i < h.len() - 1 ==> #[trigger] h[i] != 93,
{
    if Host_step(0, 91) < 0 { Host_dead(h.drop_first()); }
    br_scan(Host_step(0, 91), h.drop_first());
    let t = h.drop_first();
    assert forall|i: int| 0 <= i < h.len() - 1 implies #[trigger] h[i] != 93 by { if i > 0 { assert(h[i] == t[i - 1]); } }
    assert(h[h.len() - 1] == t[t.len() - 1]);
}
// ---- closing lemmas ----
proof fn zero_start()
    ensures hs(0), ui_rel(0, 0),
{ }
proof fn ui_to_hs(a: int)
    requires ui_okend(a),
    ensures %(A)s_step(a, 64) >= 0, hs(%(A)s_step(a, 64)),
{ }
proof fn hn_start(q: int)
    requires hs(q),
    ensures hn_rel(q, 0),
{ }
proof fn hb_start_fwd(q: int)
    requires hs(q), Host_step(0, 91) >= 0,
    ensures %(A)s_step(q, 91) >= 0, hb_rel(%(A)s_step(q, 91), Host_step(0, 91)),
{ }
proof fn hn_to_heok(a: int)
    requires hn_okend(a),
    ensures heok(a),
{ }
proof fn hb_close_fwd(a: int, b: int)
    requires hb_rel(a, b), b >= 0, Host_step(b, 93) >= 0, Host_final(Host_step(b, 93)),
    ensures %(A)s_step(a, 93) >= 0, heok(%(A)s_step(a, 93)),
{ }
proof fn heok_close(a: int)
    requires heok(a),
    ensures %(A)s_final(a), %(A)s_step(a, 58) >= 0, po_rel(%(A)s_step(a, 58), 0),
{ }
proof fn po_close(a: int)
    requires po_okend(a),
    ensures %(A)s_final(a),
{ }

/// FACT (converse of the part certificates): [user info '@'] host [':' port] assembled from valid parts is a valid authority.
/// k: position of the '@' (hs == k + 1) or unused (hs == 0); he: end of the host.
pub proof fn compose_authority(s: Seq<int>, k: int, hs_: int, he: int)
    requires
        hs_ == 0 || (0 <= k && hs_ == k + 1 && hs_ <= s.len() && s[k] == 64 && UserInfo_run(0, s.subrange(0, k))),
        0 <= hs_ <= he <= s.len(),
        Host_run(0, s.subrange(hs_, he)),
        he == s.len() || (s[he] == 58 && Port_run(0, s.subrange(he + 1, s.len() as int))),
    ensures %(A)s_run(0, s),
{
    let n = s.len() as int;
    zero_start();
    if hs_ > 0 {
        let sub = s.subrange(0, k);
        UserInfo_run_at(0, sub);
        ui_nostop_all(0, sub, k);
        assert forall|i: int| 0 <= i < k implies !(#[trigger] s[i] == 64) by { assert(sub[i] == s[i]); assert(!(sub[i] == 64)); }
        ui_span(s, 0, k, 0, 0);
        let a = %(A)s_at(0, s, k);
        ui_rel_okend(a, UserInfo_at(0, sub, k));
        ui_to_hs(a);
        %(A)s_at_next(0, s, k);
    }
    let q = %(A)s_at(0, s, hs_);
    assert(hs(q));
    let h = s.subrange(hs_, he);
    let m = he - hs_;
    Host_run_at(0, h);
    if m > 0 && s[hs_] == 91 {
        assert(h[0] == 91);
        comp_host_bracket_shape(h);
        if Host_step(0, 91) < 0 { Host_dead(h.drop_first()); }
        hb_start_fwd(q);
        %(A)s_at_next(0, s, hs_);
        let a1 = %(A)s_step(q, 91);
        let b1 = Host_step(0, 91);
        // body between the brackets: positions hs_+1 .. he-1
        let body = s.subrange(hs_ + 1, he - 1);
        Host_at_add(0, h, 1, m - 2);
        assert(Host_at(0, h, 1) == b1) by { assert(Host_at(Host_step(0, h[0]), h.drop_first(), 0) == Host_step(0, h[0])); }
        Host_at_add(0, h, m - 1, 1);
        if Host_at(0, h, m - 1) < 0 { Host_at_neg(h.skip(m - 1), 1); }
        assert(h.skip(1).subrange(0, m - 2) =~= body);
        Host_at_prefix(b1, h.skip(1), body, m - 2);
        assert forall|i: int| hs_ + 1 <= i < he - 1 implies !(#[trigger] s[i] == 93) by { assert(h[i - hs_] == s[i]); }
        hb_span(s, hs_ + 1, he - 1, a1, b1);
        let ab = %(A)s_at(0, s, he - 1);
        let bb = Host_at(b1, body, m - 2);
        assert(bb == Host_at(0, h, m - 1));
        Host_at_next(0, h, m - 1);
        assert(h[m - 1] == 93);
        hb_close_fwd(ab, bb);
        %(A)s_at_next(0, s, he - 1);
        assert(s[he - 1] == 93) by { assert(h[m - 1] == s[he - 1]); }
    } else {
        hn_start(q);
        assert(h.subrange(0, m) =~= h);
        if m > 0 { assert(h[0] == s[hs_]); }
        hn_fwd2_from(s, hs_, he, q);
        let ae = %(A)s_at(0, s, he);
        hn_rel_okend(ae, Host_at(0, h, m));
        hn_to_heok(ae);
    }
    let ae = %(A)s_at(0, s, he);
    assert(heok(ae));
    heok_close(ae);
    if he < n {
        %(A)s_at_next(0, s, he);
        let a1 = %(A)s_step(ae, 58);
        let sub = s.subrange(he + 1, n);
        Port_run_at(0, sub);
        po_nostop_all(0, sub, n - he - 1);
        assert forall|i: int| he + 1 <= i < n implies !(#[trigger] s[i] == 64) by { assert(sub[i - he - 1] == s[i]); assert(!(sub[i - he - 1] == 64)); }
        po_span(s, he + 1, n, a1, 0);
        po_rel_okend(%(A)s_at(0, s, n), Port_at(0, sub, n - he - 1));
        po_close(%(A)s_at(0, s, n));
    }
    %(A)s_at_run(0, s);
}
/// forward simulation of a plain host between two positions (no hypothesis on the characters: a host that does not
/// start with '[' never contains ':', '@' or '[')
proof fn hn_fwd2_from(s: Seq<int>, p0: int, p1: int, a: int)
    requires 0 <= p0 <= p1 <= s.len(), %(A)s_at(0, s, p0) == a, hn_rel(a, 0), Host_at(0, s.subrange(p0, p1), p1 - p0) >= 0,
        p1 > p0 ==> s[p0] != 91,
    ensures %(A)s_at(0, s, p1) >= 0, hn_rel(%(A)s_at(0, s, p1), Host_at(0, s.subrange(p0, p1), p1 - p0)),
{
    let sub = s.subrange(p0, p1);
    hn_first_not_bracket(a, sub, p1 - p0);
    %(A)s_at_add(0, s, p0, p1 - p0);
    assert forall|i: int| 0 <= i < p1 - p0 implies sub[i] == s.skip(p0)[i] by { }
    %(A)s_at_prefix(a, sub, s.skip(p0), p1 - p0);
}
proof fn hn_first_not_bracket(a: int, t: Seq<int>, n: int)
    requires hn_rel(a, 0), 0 <= n <= t.len(), n == t.len(), Host_at(0, t, n) >= 0, n > 0 ==> t[0] != 91,
    ensures %(A)s_at(a, t, n) >= 0, hn_rel(%(A)s_at(a, t, n), Host_at(0, t, n)),
{
    if n > 0 {
        let c = t[0];
        assert(Host_at(0, t, n) == Host_at(Host_step(0, c), t.drop_first(), n - 1));
        if Host_step(0, c) < 0 { Host_at_neg(t.drop_first(), n - 1); }
        hn_first_step(a, c);
        hn_fwd2(%(A)s_step(a, c), Host_step(0, c), t.drop_first(), n - 1);
        assert(%(A)s_at(a, t, n) == %(A)s_at(%(A)s_step(a, c), t.drop_first(), n - 1));
    }
}
proof fn hn_first_step(a: int, c: int)
    requires hn_rel(a, 0), c != 91, Host_step(0, c) >= 0,
    ensures %(A)s_step(a, c) >= 0, hn_rel(%(A)s_step(a, c), Host_step(0, c)), c != 58 && c != 64, Host_step(0, c) > 0,
{ }
} // verus!
fn main() {}
""" % {"A": a_name, "br_disp": br_disp}
    infos = [i_ui, i_hn, i_hb, i_po]
    return src, {"pairs": sum(i["pairs"] for i in infos), "lemmas": sum(i["lemmas"] for i in infos) + len(br_in) + 20}


CERTS["uri_authority_compose"] = lambda: authority_compose_cert(dfa.reference("rfc3986.abnf", "authority"), dfa.reference("rfc3986.abnf", "userinfo"), dfa.reference("rfc3986.abnf", "host"), dfa.reference("rfc3986.abnf", "port"))


def shapes_cert():
    """the structural shapes the contracts take as preconditions follow from language membership: a valid path has no
    '?' '#', a valid segment no '/' '?' '#', a valid query no '#', a valid authority no '/' '?' '#', a valid scheme is
    non-empty without ':' '/' '?' '#'"""
    items = [("Path", "path", QF), ("Segment", "segment", SQF), ("Query", "query", {HASH}), ("Authority", "authority", SQF), ("Scheme", "scheme", CSQF),
             ("UserInfo", "userinfo", {AT, LB}), ("Port", "port", {AT, LB})]
    src = PRELUDE
    n = 0
    for name, prod, stops in items:
        B = dfa.reference("rfc3986.abnf", prod)
        assert all(B.step(b, d) < 0 for b in range(B.n) for d in stops), name
        src += "// %s: %d states\n" % (name, B.n) + dfa._step_spec(name, B) + "\n" + RUN.format(n=name)
        src += """
proof fn %(B)s_nostop(b: int, c: int)
    requires b >= 0, %(B)s_step(b, c) >= 0,
    ensures !%(st)s,
{ }
/// FACT: a valid %(B)s contains none of its delimiters
pub proof fn comp_%(b)s_shape(t: Seq<int>, q: int)
    requires q >= 0, %(B)s_run(q, t),
    ensures forall|i: int| 0 <= i < t.len() ==> !%(sti)s,
    decreases t.len()
{
    if t.len() > 0 {
        let c = t[0];
        if %(B)s_step(q, c) < 0 { %(B)s_dead(t.drop_first()); }
        %(B)s_nostop(q, c);
        comp_%(b)s_shape(t.drop_first(), %(B)s_step(q, c));
        assert forall|i: int| 0 <= i < t.len() implies !%(sti)s by { if i > 0 { assert(t[i] == t.drop_first()[i - 1]); let j = i - 1; assert(!%(stj)s); } }
    }
}
""" % {"B": name, "b": prod, "st": _in_set("c", stops), "sti": _in_set("#[trigger] t[i]", stops), "stj": _in_set("t.drop_first()[j]", stops)}
        n += 2
    src += """
/// FACT: a valid scheme is not empty
pub proof fn comp_scheme_nonempty(t: Seq<int>)
    requires Scheme_run(0, t),
    ensures t.len() > 0,
{ }
} // verus!
fn main() {}
"""
    return src, {"pairs": 0, "lemmas": n + 1}


CERTS["uri_shapes"] = shapes_cert


def check_axiom_refs(contracts_dir):
    """every `/// certificate comp_<key>::<fn>[, <fn>..]` comment in front of an in-crate axiom must name a registered
    certificate and theorems that its generated source really contains (referential integrity of the restatements)"""
    problems, seen = [], 0
    cache = {}
    for name in sorted(os.listdir(contracts_dir)):
        if not name.endswith(".rs"):
            continue
        txt = open(os.path.join(contracts_dir, name)).read()
        for m in re.finditer(r"/// certificates? comp_(\w+?)::\{?([\w, \n/]+?)\}?\s*(?:\(|\n#\[verifier::external_body\])", txt):
            key = m.group(1)
            fns = [f.strip().lstrip("/").strip() for f in m.group(2).replace("\n", " ").split(",") if f.strip().lstrip("/").strip()]
            seen += 1
            if key not in CERTS:
                problems.append("%s: axiom refers to an unknown certificate comp_%s" % (name, key)); continue
            if key not in cache:
                cache[key] = CERTS[key]()[0]
            for f in fns:
                if not re.search(r"pub proof fn %s\s*\(" % re.escape(f), cache[key]):
                    problems.append("%s: certificate comp_%s has no theorem `%s`" % (name, key, f))
    return seen, problems


_LANG = {"UriRef": "uriref", "Scheme": "scheme", "Authority": "authority", "Path": "path", "Query": "query", "Fragment": "fragment",
         "UserInfo": "userinfo", "Host": "host", "Port": "port", "Segment": "segment"}


def _stmt(src, fn):
    m = re.search(r"pub proof fn %s\s*\((.*?)\)\s*(requires.*?)?ensures(.*?)\n\{" % re.escape(fn), src, re.S)
    return (m.group(1), m.group(2) or "", m.group(3)) if m else None


def _canon(t):
    """normal form in which a certificate theorem and its in-crate restatement must coincide: Seq<u8> for Seq<int>,
    lang_x(t) for X_run(0, t), named character classes for cls(C_.., b) / csqf(b) / explicit tests, sqN(..) for seq![..],
    subrange for skip, no_slash(x) for its definition"""
    t = re.sub(r"//.*", "", t)
    t = re.sub(r"\s+", "", t)
    t = t.replace("#[trigger]", "").replace("asint", "").replace("Seq<int>", "Seq<u8>")
    for k, v in _LANG.items():
        t = t.replace("%s_run(0," % k, "lang_%s(" % v)
    t = re.sub(r"cls\(C_CSQF,([^()]*)\)", r"CSQF(\1)", t); t = re.sub(r"csqf\(([^()]*)\)", r"CSQF(\1)", t)
    t = re.sub(r"cls\(C_SQF,([^()]*)\)", r"SQF(\1)", t); t = re.sub(r"(?<![a-z])sqf\(([^()]*)\)", r"SQF(\1)", t)
    t = re.sub(r"cls\(C_QF,([^()]*)\)", r"QF(\1)", t); t = re.sub(r"(?<![a-z])qf\(([^()]*)\)", r"QF(\1)", t)
    t = re.sub(r"cls\(C_F,([^()]*)\)", r"F(\1)", t)
    t = re.sub(r"!\((\w+\[\w+\])==35\|\|\1==47\|\|\1==58\|\|\1==63\)", r"!CSQF(\1)", t)
    t = re.sub(r"(\w+\[\w+\])!=63&&\1!=35", r"!QF(\1)", t)
    t = re.sub(r"(\w+\[\w+\])!=35", r"!F(\1)", t)
    t = t.replace("s.skip(k+1)", "s.subrange(k+1,s.len())")
    t = t.replace("hs_", "hs").replace("host_start(", "host_start_at(")
    t = t.replace("seq![47int]+p", "make_abs(p)").replace("seq![47int,46int]+p", "shield_dslash(p)").replace("seq![46int,47int]+p", "shield_colon(p)")
    t = t.replace("seq![47int]+r", "sq1(47)+r")
    t = t.replace("Seq::<int>::empty()", "sq0()")
    t = re.sub(r"seq!\[(\d+)int,(\d+)int\]", r"sq2(\1,\2)", t)
    t = re.sub(r"seq!\[(\d+)int\]", r"sq1(\1)", t)
    t = t.replace("forall|i:int|0<=i<x.len()==>x[i]!=47", "no_slash(x)")
    return t


def check_axiom_statements(contracts_dir):
    """each in-crate axiom that names ONE certificate theorem must have the same requires / ensures as that theorem after
    the normalisation of _canon. Returns (compared, mismatches)."""
    n, bad = 0, []
    cache = {}
    for name in sorted(os.listdir(contracts_dir)):
        if not name.endswith(".rs"):
            continue
        txt = open(os.path.join(contracts_dir, name)).read()
        for m in re.finditer(r"/// certificate comp_(\w+?)::(\w+)[^\n]*\n(?:///[^\n]*\n)*#\[verifier::external_body\]\npub proof fn (\w+)", txt):
            key, fn, ax = m.groups()
            if key not in CERTS:
                continue
            if key not in cache:
                cache[key] = CERTS[key]()[0]
            a, b = _stmt(cache[key], fn), _stmt(txt, ax)
            n += 1
            if not a or not b or [_canon(x) for x in a[1:]] != [_canon(x) for x in b[1:]]:
                bad.append("%s (%s) vs comp_%s::%s" % (ax, name, key, fn))
    return n, bad


# IRI family (code points): the same theorems for the RFC 3987 automata. No in-crate consumer (the byte-level restatement
# needs UTF-8 reasoning); proved in the thorough tier as facts about the grammar.
CERTS["iriref_compose"] = lambda: compose_cert(dfa.reference("rfc3987.abnf", "IRI-reference"), dfa.reference("rfc3987.abnf", "scheme"), dfa.reference("rfc3987.abnf", "iauthority"),
                                               dfa.reference("rfc3987.abnf", "ipath"), dfa.reference("rfc3987.abnf", "iquery"), dfa.reference("rfc3987.abnf", "ifragment"), a_name="IriRef")
CERTS["iri_authority"] = lambda: authority_cert(dfa.reference("rfc3987.abnf", "iauthority"), dfa.reference("rfc3987.abnf", "iuserinfo"), dfa.reference("rfc3987.abnf", "ihost"), dfa.reference("rfc3987.abnf", "port"))
CERTS["iri_authority_compose"] = lambda: authority_compose_cert(dfa.reference("rfc3987.abnf", "iauthority"), dfa.reference("rfc3987.abnf", "iuserinfo"), dfa.reference("rfc3987.abnf", "ihost"), dfa.reference("rfc3987.abnf", "port"))
CERTS["iri_path_algebra"] = lambda: path_algebra_cert(dfa.reference("rfc3987.abnf", "ipath"), dfa.reference("rfc3987.abnf", "isegment"))
