#!/bin/bash
# run every registered quick check on the real tree (regenerates /verif/evidence/*.json)
cd /verif
for p in $(python3 -c "import json;print(' '.join(c['property_id'] for c in json.load(open('MANIFEST.json'))['checks']))"); do
  /usr/bin/time -f "$p %es" ./check.py $p --tier ${1:-quick} 2>&1 | grep -v "^KNOWN" | cut -c1-200
done
