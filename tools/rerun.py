import sys, json
sys.path.insert(0, '/verif/tools')
import engine
s = sys.argv[1]
extra = sys.argv[2:]
run = engine.run_verus(s, extra=extra)
print(json.dumps(engine.summarize(run))[:200])
for d in run["diags"]:
    if d.get("level") == "error" and not d["message"].startswith("aborting"):
        print(d["rendered"])
if run["result"] is None: print(run["stderr"][-3000:])
