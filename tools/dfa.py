"""C01: the generated `validate` automata of the current tree vs reference DFAs compiled from
/verif/spec/*.abnf.

  expand()            macro-expand the real crate (same rustc as Verus, -Zunpretty=expanded)
  extract_validators  find the 20 `validate` functions and the type each belongs to
  gen_verus           R7 rewrite of the expanded body + reference DFA as spec fns + invariant
  The witness map (code state -> reference state) is computed by product BFS and then CHECKED by
  Verus inside the loop invariant; if the languages differ the BFS yields the shortest
  distinguishing string, which is replayed on the real constructor.
"""
import os, sys, re, json, subprocess, shutil, time, glob
from concurrent.futures import ThreadPoolExecutor
HERE = os.path.dirname(os.path.abspath(__file__))
sys.path.insert(0, HERE)
import rustlex, abnf, engine

SPEC_DIR = os.path.join(os.path.dirname(HERE), "spec")

# type identity (family, struct name) -> (spec file, production). Fixed here, NOT read from the
# repository's #[grammar(entry_point = ..)] attribute: changing that attribute must be noticed.
TYPES = {
    ("uri", "Uri"): ("rfc3986.abnf", "URI"), ("uri", "UriRef"): ("rfc3986.abnf", "URI-reference"),
    ("uri", "Scheme"): ("rfc3986.abnf", "scheme"), ("uri", "Authority"): ("rfc3986.abnf", "authority"),
    ("uri", "UserInfo"): ("rfc3986.abnf", "userinfo"), ("uri", "Host"): ("rfc3986.abnf", "host"),
    ("uri", "Port"): ("rfc3986.abnf", "port"), ("uri", "Path"): ("rfc3986.abnf", "path"),
    ("uri", "Segment"): ("rfc3986.abnf", "segment"), ("uri", "Query"): ("rfc3986.abnf", "query"),
    ("uri", "Fragment"): ("rfc3986.abnf", "fragment"),
    ("iri", "Iri"): ("rfc3987.abnf", "IRI"), ("iri", "IriRef"): ("rfc3987.abnf", "IRI-reference"),
    ("iri", "Authority"): ("rfc3987.abnf", "iauthority"), ("iri", "UserInfo"): ("rfc3987.abnf", "iuserinfo"),
    ("iri", "Host"): ("rfc3987.abnf", "ihost"), ("iri", "Path"): ("rfc3987.abnf", "ipath"),
    ("iri", "Segment"): ("rfc3987.abnf", "isegment"), ("iri", "Query"): ("rfc3987.abnf", "iquery"),
    ("iri", "Fragment"): ("rfc3987.abnf", "ifragment"),
}

_ref_cache = {}


def reference(spec_file, entry):
    k = (spec_file, entry)
    if k not in _ref_cache:
        _ref_cache[k] = abnf.compile_entry(open(os.path.join(SPEC_DIR, spec_file)).read(), entry)
    return _ref_cache[k]


def expand(scratch):
    core = os.path.join(scratch, "crates", "core")
    deps = engine.deps_dir()
    rustc = os.path.expanduser("~/.rustup/toolchains/%s/bin/rustc" % engine.TOOLCHAIN)
    cmd = [rustc] + engine.verus_args(deps) + ["-Zunpretty=expanded"]
    env = dict(os.environ, RUSTC_BOOTSTRAP="1", CARGO_MANIFEST_DIR=core)
    r = subprocess.run(cmd, cwd=core, env=env, stdout=subprocess.PIPE, stderr=subprocess.PIPE, text=True)
    if r.returncode != 0 or "fn validate" not in r.stdout:
        raise RuntimeError("macro expansion failed:\n" + r.stderr[-2000:])
    return r.stdout, " ".join(cmd)


def _lit(tok):
    t = tok.text
    if t.startswith("'"):
        body = t[1:-1]
        if body.startswith("\\u{"):
            return int(body[3:-1], 16)
        if body.startswith("\\x"):
            return int(body[2:], 16)
        if body.startswith("\\"):
            return {"n": 10, "r": 13, "t": 9, "\\": 92, "'": 39, '"': 34, "0": 0}[body[1]]
        return ord(body)
    if t.startswith("b'"):
        return _lit(rustlex.Tok("lit", t[1:], 0, 0))
    m = re.match(r"^(0x[0-9a-fA-F_]+|[0-9_]+)(u8|u32|usize|i32)?$", t)
    if not m:
        raise ValueError("unsupported literal " + t)
    return int(m.group(1).replace("_", ""), 0)


def extract_validators(expanded):
    toks = rustlex.lex(expanded)
    # top-level module spans
    fam_span = {}
    for k, t in enumerate(toks):
        if t.kind == "id" and t.text == "mod" and toks[k + 1].kind == "id" and toks[k + 1].text in ("uri", "iri") and toks[k + 2].text == "{":
            # only the outermost ones (crate level): previous brace depth 0
            depth = sum(1 for q in range(k) if toks[q].text == "{" and toks[q].match > k)
            if depth == 0:
                fam_span[toks[k + 1].text] = (k + 2, toks[k + 2].match)
    out = []
    for k, t in enumerate(toks):
        if t.kind == "id" and t.text == "fn" and toks[k + 1].text == "validate":
            fam = None
            for f, (a, b) in fam_span.items():
                if a < k < b:
                    fam = f
            # enclosing impl
            impl_name = None
            for q in range(k, -1, -1):
                if toks[q].text == "{" and toks[q].match > k:
                    c = rustlex._container_name(toks, q)
                    if c and c[0] == "impl":
                        impl_name = c[1]
                        break
            # signature: element type
            po = k + 2
            assert toks[po].text == "("
            pc = toks[po].match
            sig = expanded[toks[po].start:toks[pc].end]
            elem = "char" if "Item = char" in sig else "u8" if "Item = u8" in sig else None
            q = pc + 1
            while toks[q].text != "{":
                q += 1
            body_open, body_close = q, toks[q].match
            out.append({"family": fam, "type": impl_name, "elem": elem, "toks": toks, "body": (body_open, body_close),
                        "text": expanded})
    return out


def parse_body(v):
    """returns (states: {s: {"arms": [(ranges, target)], "default": target, "none": bool}}, arm text spans)
    target: int state, or "false"/"true" for `break b`"""
    toks, text = v["toks"], v["text"]
    bo, bc = v["body"]
    # find `match state {`
    ms = None
    for q in range(bo, bc):
        if toks[q].text == "match" and toks[q + 1].text == "state" and toks[q + 2].text == "{":
            ms = q + 2
            break
    if ms is None:
        raise ValueError("validate body has an unexpected shape (no `match state`)")
    states = {}
    q = ms + 1
    end = toks[ms].match
    while q < end:
        # pattern
        if toks[q].text == "_":
            # unreachable arm
            while q < end and not (toks[q].text == "," ):
                if toks[q].text in "([{":
                    q = toks[q].match
                q += 1
            q += 1
            continue
        st = _lit(toks[q])
        assert toks[q + 1].text == "=>", toks[q + 1]
        assert toks[q + 2].text == "match" and toks[q + 3].text == "input", "unexpected arm shape"
        r = q + 2
        while toks[r].text != "{":
            r += 1
        io, ic = r, toks[r].match
        arms, default, none = [], None, None
        p = io + 1
        while p < ic:
            if toks[p].text == "Some":
                po = p + 1
                pc = toks[po].match
                pat = toks[po + 1:pc]
                assert toks[pc + 1].text == "=>"
                e = pc + 2
                if toks[e].text == "break":
                    tgt = toks[e + 1].text
                    e2 = e + 2
                else:
                    tgt = _lit(toks[e])
                    e2 = e + 1
                if len(pat) == 1 and pat[0].text == "_":
                    default = tgt
                else:
                    ranges = []
                    i = 0
                    while i < len(pat):
                        if pat[i].text == "|":
                            i += 1
                            continue
                        lo = _lit(pat[i])
                        if i + 1 < len(pat) and pat[i + 1].text == "..=":
                            hi = _lit(pat[i + 2]); i += 3
                        else:
                            hi = lo; i += 1
                        ranges.append((lo, hi))
                    arms.append((ranges, tgt))
                p = e2
            elif toks[p].text == "None":
                assert toks[p + 1].text == "=>" and toks[p + 2].text == "break"
                none = toks[p + 3].text == "true"
                p = p + 4
            else:
                raise ValueError("unexpected token in validate arm: %r" % toks[p])
            if p < ic and toks[p].text == ",":
                p += 1
        states[st] = {"arms": arms, "default": default, "none": none}
        q = ic + 1
        if q < end and toks[q].text == ",":
            q += 1
    return states, (ms, end)


def code_dfa(states):
    """first-match-wins semantics of `match` -> DFA with disjoint intervals"""
    n = max(states) + 1
    trans = [[] for _ in range(n)]
    finals = set()
    for s, d in states.items():
        taken = []   # (lo, hi)
        def uncovered(lo, hi):
            segs = [(lo, hi)]
            for a, b in taken:
                nxt = []
                for x, y in segs:
                    if b < x or a > y:
                        nxt.append((x, y))
                    else:
                        if x < a:
                            nxt.append((x, a - 1))
                        if b < y:
                            nxt.append((b + 1, y))
                segs = nxt
            return segs
        for ranges, tgt in d["arms"]:
            for lo, hi in ranges:
                for x, y in uncovered(lo, hi):
                    if isinstance(tgt, int):
                        trans[s].append((x, y, tgt))
                    taken.append((x, y))
        if isinstance(d["default"], int):
            for x, y in uncovered(0, 0x10FFFF):
                trans[s].append((x, y, d["default"]))
        if d["none"]:
            finals.add(s)
        trans[s] = abnf._merge(trans[s])
    return abnf.DFA(trans, finals)


def _step_spec(name, d):
    lines = ["pub open spec fn %s_step(q: int, c: int) -> int {" % name]
    first = True
    for q in range(d.n):
        kw = "if" if first else "else if"
        first = False
        lines.append("    %s q == %d {" % (kw, q))
        inner_first = True
        if not d.trans[q]:
            lines.append("        -1")
        for lo, hi, t in d.trans[q]:
            k2 = "if" if inner_first else "else if"
            inner_first = False
            cond = ("c == %d" % lo) if lo == hi else ("%d <= c && c <= %d" % (lo, hi))
            lines.append("        %s %s { %d }" % (k2, cond, t))
        if d.trans[q]:
            lines.append("        else { -1 }")
        lines.append("    }")
    lines.append("    else { -1 }")
    lines.append("}")
    fin = " || ".join("q == %d" % f for f in sorted(d.finals)) or "false"
    lines.append("pub open spec fn %s_final(q: int) -> bool { %s }" % (name, fin))
    return "\n".join(lines)


def gen_verus(v, states, span, ref, mp, name):
    toks, text = v["toks"], v["text"]
    ms, me = span
    elem = v["elem"]
    # R7: copy the arms verbatim; input.next() -> cursor; break b -> return b; panic -> unreached
    body = text[toks[ms].start:toks[me].end]
    n_next = body.count("input.next()")
    body = body.replace("input.next()", "(if pos < input.len() { let c = input[pos]; pos = pos + 1; Some(c) } else { None })")
    body = re.sub(r"\bbreak\s+(true|false)\b", r"return \1", body)
    body = re.sub(r"::core::panicking::panic\([^)]*\)", "vstd::pervasive::unreached()", body)
    ncode = max(states) + 1
    mp_lines = ["pub open spec fn %s_map(s: int) -> int {" % name]
    first = True
    for s in range(ncode):
        kw = "if" if first else "else if"
        first = False
        mp_lines.append("    %s s == %d { %d }" % (kw, s, mp.get(s, -1)))
    mp_lines.append("    else { -1 }\n}")
    cast = "input@[i] as int" if elem == "u8" else "input@[i] as u32 as int"
    src = """use vstd::prelude::*;
verus! {
// reference DFA compiled from /verif/spec (%d states)
%s
%s
pub open spec fn %s_seq(input: Seq<%s>) -> Seq<int> { Seq::new(input.len(), |i: int| input[i] as %s) }
pub open spec fn %s_run(q: int, s: Seq<int>) -> bool
    decreases s.len()
{
    if q < 0 { false } else if s.len() == 0 { %s_final(q) } else { %s_run(%s_step(q, s[0]), s.drop_first()) }
}
/// the language of the RFC production
pub open spec fn %s_lang(input: Seq<%s>) -> bool { %s_run(0, %s_seq(input)) }

// the generated validator of the current tree (R7: slice cursor instead of the iterator)
#[allow(unreachable_code)]
pub fn validate(input: &[%s]) -> (r: bool)
    ensures r == %s_lang(input@),
{
    let mut pos: usize = 0;
    let mut state = 0u32;
    proof { assert(%s_seq(input@).skip(0) =~= %s_seq(input@)); }
    loop
        invariant
            pos <= input.len(),
            state < %d,
            %s_lang(input@) == %s_run(%s_map(state as int), %s_seq(input@).skip(pos as int)),
        decreases input.len() - pos,
    {
        proof {
            let s = %s_seq(input@).skip(pos as int);
            if pos < input.len() {
                assert(s.drop_first() =~= %s_seq(input@).skip(pos + 1));
                assert(s[0] == input@[pos as int] as %s);
                assert(!%s_run(-1, s.drop_first()));
            } else {
                assert(s.len() == 0);
            }
        }
        state = match state %s
    }
}
} // verus!
fn main() {}
""" % (ref.n, _step_spec(name, ref), "\n".join(mp_lines), name, elem, "int" if elem == "u8" else "u32 as int",
       name, name, name, name, name, elem, name, name, elem, name, name, name, ncode, name, name, name, name, name, name,
       "int" if elem == "u8" else "u32 as int", name, body)
    return src, n_next


def check_all(scratch, workdir, tier="quick", only=None, rlimit=600, threads=16):
    """returns list of per-type results"""
    expanded, expand_cmd = expand(scratch)
    vals = extract_validators(expanded)
    results = []
    jobs = []
    seen = set()
    for v in vals:
        key = (v["family"], v["type"])
        res = {"type": "%s::%s" % key, "key": key}
        results.append(res)
        if key not in TYPES:
            res["status"] = "undecided"; res["detail"] = "validate function of an unknown type %s::%s" % key
            continue
        seen.add(key)
        if only and res["type"] not in only:
            res["status"] = "skipped"
            continue
        spec_file, entry = TYPES[key]
        res["production"] = "%s:%s" % (spec_file, entry)
        try:
            states, span = parse_body(v)
        except Exception as e:
            res["status"] = "undecided"; res["detail"] = "cannot parse the generated validate: %s" % e
            continue
        ref = reference(spec_file, entry)
        cd = code_dfa(states)
        amax = 255 if v["elem"] == "u8" else 0x10FFFF
        # a `char` is never a surrogate
        diff, rel = abnf.product_diff(cd, ref, amax, holes=() if v["elem"] == "u8" else ((0xD800, 0xDFFF),))
        res["code_states"] = cd.n
        res["ref_states"] = ref.n
        res["elem"] = v["elem"]
        if diff is not None:
            # surrogates cannot occur in a `char` iterator
            res["status"] = "differs"
            res["witness"] = diff
            res["witness_accepted_by_code"] = cd.accepts(diff)
            res["witness_in_rfc_language"] = ref.accepts(diff)
        mp = {}
        ambiguous = False
        for s, ys in rel.items():
            if s < 0:
                continue
            ys = set(ys)
            if len(ys) == 1:
                mp[s] = list(ys)[0]
            else:
                ambiguous = True
                mp[s] = sorted(ys)[-1]
        name = "r"
        src, n_next = gen_verus(v, states, span, ref, mp, name)
        path = os.path.join(workdir, "dfa_%s_%s.rs" % key)
        open(path, "w").write(src)
        res["file"] = path
        jobs.append((res, path))
    missing = [k for k in TYPES if k not in seen]
    for k in missing:
        results.append({"type": "%s::%s" % k, "key": k, "status": "undecided", "detail": "no generated validate found for this type"})

    def run(job):
        res, path = job
        t0 = time.time()
        r = subprocess.run(["verus", path, "--rlimit", str(rlimit), "--output-json", "--time", "--num-threads", "1"],
                           stdout=subprocess.PIPE, stderr=subprocess.PIPE, text=True, cwd=workdir)
        res["wall_s"] = round(time.time() - t0, 1)
        try:
            j = json.loads(r.stdout[r.stdout.index("{"):])
            vr = j["verification-results"]
            res["verified"] = vr.get("verified"); res["errors"] = vr.get("errors")
            res["smt_s"] = round(j.get("times-ms", {}).get("smt", {}).get("total", 0) / 1000.0, 1)
            ok = vr.get("success") and vr.get("errors") == 0 and vr.get("verified", 0) >= 1
        except Exception:
            ok = False
            res["verified"] = None
        res["verus_stderr"] = r.stderr[-3000:]
        if res.get("status") == "differs":
            return
        if ok:
            res["status"] = "proved"
        elif "rlimit" in r.stderr.lower() or "resource limit" in r.stderr.lower():
            res["status"] = "undecided"; res["detail"] = "resource limit"
        elif res.get("verified") is None or "error:" in r.stderr and "not satisfied" not in r.stderr and "assertion" not in r.stderr:
            res["status"] = "undecided"; res["detail"] = "verifier could not process the generated file"
        else:
            res["status"] = "failed"
    with ThreadPoolExecutor(max_workers=threads) as ex:
        list(ex.map(run, jobs))
    return results, expand_cmd


if __name__ == "__main__":
    s = engine.scratch_root()
    w = engine.scratch_root()
    try:
        engine.copy_repo(s)
        only = sys.argv[1:] or None
        t0 = time.time()
        res, cmd = check_all(s, w, only=only)
        for r in res:
            print(r["type"], r.get("status"), "code", r.get("code_states"), "ref", r.get("ref_states"), "wall", r.get("wall_s"), "smt", r.get("smt_s"), r.get("detail", ""), r.get("witness", ""))
            if r.get("status") in ("failed", "undecided") and r.get("verus_stderr"):
                print(r["verus_stderr"][-1500:])
        print("total %.1fs" % (time.time() - t0))
    finally:
        shutil.rmtree(s, ignore_errors=True)
        if "--keep" not in sys.argv:
            shutil.rmtree(w, ignore_errors=True)
