#!/usr/bin/env python3
"""Generate MANIFEST.json from tools/props.py (single source of truth)."""
import json, os, sys
HERE = os.path.dirname(os.path.abspath(__file__))
sys.path.insert(0, HERE)
from props import PROPS, NOT_APPLICABLE, MANIFEST_TEXT
sys.path.insert(0, os.path.dirname(HERE))
import check as _check
_CERT_NOTE = {
    "C02": "; component validity by Verus-checked automata certificates (tools/complemmas.py) carried to Uri::parts / UriRef::parts through a proved link lemma",
    "C03": "; validity of user info / host / port by a Verus-checked automata certificate and a proved link lemma",
    "C04": "; character-level half (URI family) from the decomposition theorem, path-language closure and authority theorems proved as Verus-checked automata certificates, plus proved lemmas over each mutator's own postcondition",
    "C16": "; validity of base() from the same certificates (lemma_base_valid)",
}
VERIF = os.path.dirname(HERE)
ids = [json.loads(l)["id"] for l in open(os.path.join(VERIF, "properties.jsonl"))]
checks = []
for pid in ids:
    if pid not in PROPS:
        continue
    c = PROPS[pid]
    t = MANIFEST_TEXT[pid]
    checks.append({
        "property_id": pid,
        "quick_cmd": "./check.py %s --tier quick" % pid,
        "thorough_cmd": "./check.py %s --tier thorough" % pid,
        "evidence_file": "/verif/evidence/%s.json" % pid,
        "replay_cmd_template": "./check.py %s --replay {path}" % pid,
        "engine": "verus-in-place",
        "level_claimed": {"category": c["level"], "text": t["level_text"], "design_ref": t.get("design_ref", "DESIGN.md section 5")},
        "level_note": t["level_note"],
        "technique": t["technique"] + _CERT_NOTE.get(pid, "") + ("; plus, on every run, a BOUNDED refutation search of the real crate against an executable version of the specification (concrete failing inputs, stand-in for the facade wrappers; never counted as proved)" if pid in _check.SEARCHABLE else ""),
    })
na = [{"property_id": pid, "reason": NOT_APPLICABLE[pid]} for pid in ids if pid not in PROPS]
m = {
    "version": 1,
    "setup_cmd": "python3 tools/setup.py",
    "hooks": {
        "guard": "none (no hook in /repo: all annotation happens on scratch copies made from /repo's working tree on every run)",
        "enable": "n/a - checks copy /repo's working tree, insert contracts from /verif/contracts and run Verus as the compiler of the real crate",
        "baseline_off_cmd": "cd /repo && cargo test --workspace --no-fail-fast --offline",
        "source_commits": [],
        "add_only": True,
    },
    "engines": [
        {"name": "verus-in-place", "path": "/verif/tools/engine.py", "serves_properties": sorted(PROPS), "kind_free_text": "contract overlay (/verif/contracts) inserted into a scratch copy of the real crate; Verus 0.2026.09.13 run as rustc on it; diagnostics mapped to named obligations"},
    ],
    "checks": checks,
    "not_applicable": na,
    "notes": "Technique family: contract-based deductive verification of the real code (Verus), bounded Kani stand-ins labelled as such. See DESIGN.md. No hook commit exists in /repo. Unguarded `fix:` commits in /repo (repairs of genuine defects, recorded in known_findings.json): " + ", ".join(l.strip() for l in open(os.path.join(VERIF, "fix_commits.txt")) if l.strip()) + ".",
}
json.dump(m, open(os.path.join(VERIF, "MANIFEST.json"), "w"), indent=1)
print("MANIFEST.json: %d checks, %d not_applicable" % (len(checks), len(na)))
